"""C17 -- Damaged library files are refused, never silently used.

Proof (Coq, coq/Foam/LibHdr.v + LibHdrFacts.v over the constants generated from lib.c/lib.h):
reader_total, intact_loaded, truncation_refused for the header + section-table logic of
libGetHeader/libChkHeader as repaired (failed check fatal, short reads fatal, last section within
the file).

Fault enumeration on the real compiler (rebuilt from the current tree) with real files: a small
library unit + a client that uses it and prints; the unit as .ao, inside an ar archive (.al) and as
.fm.  Every truncation length / single-byte substitutions; each outcome is classified
  same | refused (diagnostic + non-zero exit) | fault | hang | silent-different
and only the first two are allowed.  For damage inside the .ao header and section table the
extracted reader model predicts the outcome (and, for a refusal, the diagnostic); prediction and
observation are compared.
"""
import json, os, re, shutil, struct, time
import concurrent.futures

from vlib import common as C
from props import c05

ID = "C17"
LEVEL = "fault_enumeration"
MANIFEST = {
    "level_text": "Machine-checked proof (Coq) that the library header/section-table reader refuses every "
                  "proper prefix of a written library file, loads every intact one and is total with the "
                  "outcomes refuse / load; fault enumeration on the rebuilt compiler: every "
                  "truncation length and single-byte substitutions of real .ao/.al/.fm files, outcome "
                  "classified and compared with the model's prediction in the header/section-table region.",
    "level_note": "Only the header + section table is modelled; what the compiler does with damaged "
                  "section CONTENTS (symes, types, FOAM bytes), with a damaged archive directory or .fm text is "
                  "enumerated, not proved. Trusted: Coq kernel, extraction, driver.ml conversions, the "
                  "outcome classifier below.",
    "technique": "Coq proof of the header reader model + fault enumeration against the real compiler "
                 "(exhaustive truncations of small files, header/table substitutions, sampled body substitutions)",
    "design_ref": "DESIGN.md section 4 / C17",
}

FAULT_RE = re.compile(r"Program fault|Compiler bug|Bug:|segmentation|abort process|Assertion|assert\b|core dumped|stack overflow", re.I)
DIAG_RE = re.compile(r"Error|Fatal|Library format|Could not|Syntax|cannot|bad ", re.I)

REFUSAL_TEXT = {"ShortHeader": "bad section header", "BadMagic": "bad magic number", "BadVersion": "obsolete version",
                "BadNumSect": "bad number of sections", "BadSectName": "bad section name",
                "BadSectHdr": "bad section header", "SectBeyondFile": "offset out of range", "DupSect": "duplicate section",
                "ShortSection": "offset out of range"}

LIB_SRC = '''#include "aldor"
Foo: with { f: MachineInteger -> MachineInteger; g: () -> String; } == add {
  f(x: MachineInteger): MachineInteger == x + 41;
  g(): String == "from-lib";
}
'''
CLIENT = '''#include "aldor"
#include "aldorio"
#library LL "%s"
import from LL;
import from Foo, MachineInteger, String;
stdout << f(1) << " " << g() << newline;
'''
WHOLE = '''#include "aldor"
#include "aldorio"
import from MachineInteger, String;
h(x: MachineInteger): MachineInteger == x * 3 + 1;
stdout << h(13) << " whole" << newline;
'''


def classify(rc, out, ref):
    """ref = (rc, out) of the intact run."""
    if rc == 124:
        return "hang"
    if rc < 0 or rc >= 128 or FAULT_RE.search(out):
        return "fault"
    if (rc, out) == ref:
        return "same"
    if rc == 0:
        return "silent-different"
    if DIAG_RE.search(out):
        return "refused"
    return "fault"      # non-zero exit without any diagnostic


class World:
    """The valid files and the commands that read them."""

    def __init__(self, exe, work):
        self.exe, self.work = exe, work
        self.n = 0

    def al(self, args, cwd, timeout=20):
        rc, out, err, dt = c05.aldor(self.exe, args, cwd, timeout)
        if rc == 124 and timeout < 60:
            # no exit within 20 s: on a loaded machine that may only be slowness -- one retry with 60 s decides
            rc, out, err, dt = c05.aldor(self.exe, args, cwd, 60)
        return rc, out + err

    def build(self):
        d = self.work + "/build"
        os.makedirs(d)
        open(d + "/lib1.as", "w").write(LIB_SRC)
        rc, out = self.al(["-Fao", "-Ffm", "lib1.as"], d)
        if rc != 0:
            raise C.BuildError("library unit does not compile: " + out[-300:])
        self.lib_ao = open(d + "/lib1.ao", "rb").read()
        self.lib_fm = open(d + "/lib1.fm", "rb").read()
        C.run(["ar", "cr", "liblib1.al", "lib1.ao"], cwd=d, timeout=30)
        self.lib_al = open(d + "/liblib1.al", "rb").read()
        open(d + "/whole.as", "w").write(WHOLE)
        rc, out = self.al(["-Fao", "-Ffm", "whole.as"], d)
        if rc != 0:
            raise C.BuildError("whole unit does not compile: " + out[-300:])
        self.whole_ao = open(d + "/whole.ao", "rb").read()
        self.whole_fm = open(d + "/whole.fm", "rb").read()
        # scenarios: name -> (damaged file name, intact bytes, other files, command)
        self.scen = {
            "ao-lib": ("lib1.ao", self.lib_ao, {"cl.as": (CLIENT % "lib1.ao").encode()}, ["-ginterp", "cl.as"]),
            "al-lib": ("liblib1.al", self.lib_al, {"cl.as": (CLIENT % "liblib1.al").encode()}, ["-Y.", "-ginterp", "cl.as"]),
            "fm-lib": ("lib1.fm", self.lib_fm, {}, ["-Fc=out.c", "-Flsp=out.lsp", "lib1.fm"]),
            "ao-unit": ("whole.ao", self.whole_ao, {}, ["-laldor", "-Fc=out.c", "-ginterp", "whole.ao"]),
            "fm-unit": ("whole.fm", self.whole_fm, {}, ["-laldor", "-Fc=out.c", "-ginterp", "whole.fm"]),
        }
        self.ref = {}
        for s in self.scen:
            self.ref[s] = self.run(s, self.scen[s][1], "ref-" + s)
            if self.ref[s][0] != 0:
                raise C.BuildError("intact scenario %s fails: %s" % (s, self.ref[s][1][-300:]))

    def run(self, scen, data, tag):
        fname, _, others, cmd = self.scen[scen]
        d = "%s/r/%s" % (self.work, tag)
        os.makedirs(d)
        with open(d + "/" + fname, "wb") as f:
            f.write(data)
        for k, v in others.items():
            with open(d + "/" + k, "wb") as f:
                f.write(v)
        rc, out = self.al(cmd, d)
        outs = ""
        for e in ("out.c", "out.lsp"):
            try:
                t = open(d + "/" + e, errors="replace").read()
                outs += "\n--%s--\n" % e + re.sub(r'(generated by Aldor from file ")[^"]*(")', r"\1X\2", t, count=1)
            except OSError:
                pass
        shutil.rmtree(d, ignore_errors=True)
        return rc, out + outs


def ao_region(info, data, off):
    lib = info["lib"]
    if off < 12:
        return "header"
    if off < lib["hdr_size"]:
        return "section-table"
    for i in range(lib["name_limit"]):
        n, o, l = struct.unpack_from("<BII", data, 12 + lib["sect_size"] * i)
        if n < lib["name_limit"] and o <= off < o + l:
            return "section=" + info["sect_names"][n]
    return "beyond"


def region_of(info, scen, data, off):
    if scen.startswith("ao"):
        return ao_region(info, data, off)
    if scen.startswith("al"):
        if off < 8:
            return "ar-magic"
        # members: 60-byte header then data (even-padded); the .ao is the only member
        pos = 8
        while pos + 60 <= len(data):
            size = int(data[pos + 48:pos + 58].decode("ascii", "replace").strip() or "0")
            if off < pos + 60:
                return "ar-member-header"
            if off < pos + 60 + size:
                return "member/" + ao_region(info, data[pos + 60:pos + 60 + size], off - pos - 60)
            pos += 60 + size + (size & 1)
        return "ar-tail"
    return "text"


def model_predict(drv, data):
    a = drv.ask("libo " + c05.hexb(data), timeout=60)
    return a or "DRIVER-DIED"


def enumerate_faults(rep, tier, info, world):
    rng = C.rng("C17/faults")
    lib = info["lib"]
    cases = []      # (scen, kind, off, data)

    def trunc_lengths(n, full, sample):
        if full:
            return list(range(n))
        head = set(range(0, min(n, 400))) | set(range(max(0, n - 200), n))
        rest = [k for k in range(n) if k not in head]
        return sorted(head | set(rng.sample(rest, min(sample, len(rest)))))
    thorough = tier != "quick"
    cdir = os.path.join(C.VERIF, "corpus", ID)
    if os.path.isdir(cdir):
        for f in sorted(os.listdir(cdir)):
            if f.endswith(".json"):
                it = json.load(open(os.path.join(cdir, f)))
                data = world.scen[it["scenario"]][1]
                off = it["offset"] if it["offset"] >= 0 else len(data) + it["offset"]
                if it["damage"] == "truncation":
                    cases.append((it["scenario"], "truncation", off, data[:off]))
                else:
                    cases.append((it["scenario"], "single-byte", off, data[:off] + bytes([it["new_byte"]]) + data[off + 1:]))
    for scen in world.scen:
        data = world.scen[scen][1]
        full = thorough or scen == "ao-lib" or len(data) < 3000
        for k in trunc_lengths(len(data), full, 1500 if scen == "al-lib" else 250):
            cases.append((scen, "truncation", k, data[:k]))
    vals = lambda b: sorted({b ^ 0x01, b ^ 0x80, 0x00, 0xFF} - {b})
    for scen in world.scen:
        data = world.scen[scen][1]
        offs = []
        if scen.startswith("ao"):
            offs = list(range(lib["hdr_size"]))
        elif scen.startswith("al"):
            offs = list(range(0, 68 + lib["hdr_size"]))
        else:
            offs = list(range(0, min(len(data), 120)))
        body = [o for o in range(len(data)) if o not in set(offs)]
        nb = (200 if scen in ("ao-lib", "ao-unit") else 100) if not thorough else min(len(body), 3000)
        offs_body = rng.sample(body, min(nb, len(body)))
        for o in offs:
            for v in vals(data[o]):
                cases.append((scen, "single-byte", o, data[:o] + bytes([v]) + data[o + 1:]))
        for o in offs_body:
            for v in (vals(data[o]) if thorough else rng.sample(vals(data[o]), 2)):
                cases.append((scen, "single-byte", o, data[:o] + bytes([v]) + data[o + 1:]))
    stats = {"cases": len(cases), "by_class": {}, "by_scen": {}, "model_compared": 0, "model_agree": 0}
    seen = set()
    nworkers = min(16, C.NCPU)

    def work(ix):
        drv = c05.Line(c05.build_driver())
        res = []
        for i in range(ix, len(cases), nworkers):
            scen, kind, off, data = cases[i]
            rc, out = world.run(scen, data, "c%d" % i)
            cls = classify(rc, out, world.ref[scen])
            pred = None
            intact = world.scen[scen][1]
            if scen.startswith("ao") and (kind == "truncation" or off < lib["hdr_size"]):
                pred = model_predict(drv, data)
            res.append((i, cls, rc, out[-400:], pred))
        drv.close()
        return res
    with concurrent.futures.ThreadPoolExecutor(nworkers) as ex:
        results = [r for part in ex.map(work, range(nworkers)) for r in part]
    results.sort()
    for i, cls, rc, out, pred in results:
        scen, kind, off, data = cases[i]
        intact = world.scen[scen][1]
        stats["by_class"][cls] = stats["by_class"].get(cls, 0) + 1
        stats["by_scen"].setdefault(scen, {}).setdefault(kind, 0)
        stats["by_scen"][scen][kind] += 1
        region = region_of(info, scen, intact, min(off, len(intact) - 1))
        rp = {"kind": "fault", "scenario": scen, "damage": kind, "offset": off, "file": world.scen[scen][0],
              "new_byte": (data[off] if kind == "single-byte" else None), "old_byte": intact[off] if off < len(intact) else None,
              "intact_hex": intact.hex() if len(intact) < 20000 else None, "command": world.scen[scen][3],
              "rc": rc, "output": out, "class": cls, "model": pred}
        if cls not in ("same", "refused"):
            # key: file kind + region class + damage + outcome; the section name stays in the replay
            # (which sections a seeded sample of body offsets hits must not decide whether a run passes)
            rclass = re.sub(r"section=\w+", "contents", region).replace("member/", "member-")
            rp["region"] = region
            key = "%s:%s:%s:%s" % (scen.split("-")[0], rclass, kind, cls)
            if pred is not None:
                # inside the modelled region the model's own outcome is part of the key: a fault the model
                # predicts (the Index bug) is a different defect from a fault where it predicts a refusal
                key += ":model=" + pred.split()[0]
            if key not in seen:
                seen.add(key)
                rep.violation("a %s file damaged by %s at offset %d (%s) is not refused: %s" % (
                    world.scen[scen][0], kind, off, region, cls), rp, key=key)
        if pred is not None:
            stats["model_compared"] += 1
            ok = True
            if pred.startswith("REFUSED"):
                want = REFUSAL_TEXT.get(pred.split()[1], "?")
                ok = cls == "refused" and want in out
            elif pred == "FAULT":
                ok = cls == "fault" and "Index[Name[i]] != i" in out
            elif pred == "LOADED":
                ok = not any(t in out for t in ("bad magic", "obsolete version", "bad number of sections", "bad section name",
                                                 "bad section header", "duplicate section"))
            else:
                ok = False
            if ok:
                stats["model_agree"] += 1
            elif ("model", scen, kind, pred.split()[0], cls) not in seen:
                seen.add(("model", scen, kind, pred.split()[0], cls))
                if cls in ("same", "refused"):
                    rep.violation("correspondence C17/header no longer checks: model predicts %s, compiler: %s (%s at %d)" % (
                        pred, cls, kind, off), rp, no_input=True)
                # otherwise the keyed violation above already carries the failing input
    return stats


def run(rep, tier):
    t0 = time.time()
    try:
        info = c05.generate()
    except c05.foaminfo_gen.GenError as e:
        rep.violation("translator no longer reads lib.c/lib.h/foam.c: %s" % e, {"error": str(e)}, no_input=True)
        return
    state = {"info": info}

    def searcher(log):
        try:
            exe = C.build_compiler()
            w = World(exe, C.scratch("c17s"))
            w.build()
            enumerate_faults(rep, "quick", info, w)
        except Exception as e:
            rep.notes.append("searcher: %r" % e)
    ok = C.proof_stage(rep, ID, ["Props/Properties_C17.vo", "Foam/Extract.vo"], "Props/Properties_C17.v", searcher)
    t1 = time.time()
    if not ok:
        return
    exe = C.build_compiler()
    c05.build_driver()
    world = World(exe, C.scratch("c17"))
    try:
        world.build()
    except C.BuildError as e:
        # the INTACT files are not accepted: the other half of the property (intact_loaded)
        rep.violation("an intact library/unit file is not read back: %s" % str(e)[:200],
                      {"kind": "intact", "lib_source": LIB_SRC, "whole_source": WHOLE, "message": str(e)},
                      key="intact-file:not-loaded")
        return
    t2 = time.time()
    st = enumerate_faults(rep, tier, info, world)
    t3 = time.time()
    sizes = {s: len(world.scen[s][1]) for s in world.scen}
    rep.add_cov(evaluations=st["cases"], distinct_nontrivial=st["cases"],
                traces_validated_against_impl=st["model_compared"],
                rule="quick: every truncation length of lib1.ao and of files < 3000 bytes; liblib1.al: first 400 + last 200 + 1500 sampled lengths; "
                     "the others: first 400 + last 200 + 250 sampled; substitutions (^0x01, ^0x80, 0x00, 0xFF) at every offset of header + section table (and ar headers), "
                     "sampled offsets elsewhere; thorough: every length of every file, 3000 body offsets",
                samples=[{"scenario": s, "file": world.scen[s][0], "bytes": sizes[s], "cmd": world.scen[s][3]} for s in world.scen],
                input_distribution={"by_class": st["by_class"], "by_scenario": st["by_scen"],
                                    "model_compared": st["model_compared"], "model_agree": st["model_agree"]},
                stage_seconds={"generate+proof": round(t1 - t0, 1), "build": round(t2 - t1, 1), "enumerate": round(t3 - t2, 1)})
    rep.assume(
        "outcome classes: fault = signal / exit >= 128 / 'Program fault' / 'Compiler bug' / 'Bug:' / abort / non-zero exit without diagnostic; "
        "hang = no exit within 20 s and, retried, none within 60 s; refused = non-zero exit with a diagnostic; same = exit status, stdout+stderr and generated C/Lisp identical to the intact run",
        "only header + section table are modelled (read_lib); other regions are enumerated without prediction",
        "the model prediction for a refusal includes the diagnostic text of the refusing check",
        "archive made with ar(1) holding the one unit; .fm read back through -Fc/-Flsp (and -ginterp for the printing unit)",
    )


def replay(path):
    rp = json.load(open(path))["replay"]
    if rp.get("kind") == "intact":
        try:
            World(C.build_compiler(), C.scratch("c17r")).build()
            print("intact files load")
            return 0
        except C.BuildError as e:
            print("REPRODUCED: %s" % e)
            return 1
    if rp.get("kind") != "fault":
        print("nothing to re-run")
        return 1
    info = c05.generate()
    w = World(C.build_compiler(), C.scratch("c17r"))
    w.build()
    scen = rp["scenario"]
    intact = w.scen[scen][1]
    if rp["damage"] == "truncation":
        data = intact[:rp["offset"]]
    else:
        o = rp["offset"]
        data = intact[:o] + bytes([rp["new_byte"]]) + intact[o + 1:]
    rc, out = w.run(scen, data, "replay")
    cls = classify(rc, out, w.ref[scen])
    print("class=%s rc=%s\n%s" % (cls, rc, out[-400:]))
    return 0 if cls in ("same", "refused") else 1
