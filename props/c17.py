"""C17 -- Damaged library files are refused, never silently used.

Proof (Coq, coq/Foam/LibHdr.v + LibHdrFacts.v over the constants generated from lib.c/lib.h):
reader_total, intact_loaded, truncation_refused for the header + section-table logic of
libGetHeader/libChkHeader as repaired (failed check fatal, short reads fatal, last section within
the file).

Fault enumeration on the real compiler (rebuilt from the current tree) with real files: a small
library unit + a client that uses it and prints; the unit as .ao, inside an ar archive (.al) and as
.fm.  Every truncation length / single-byte substitutions; each outcome is classified
  same | refused (diagnostic + non-zero exit) | fault | hang | silent-different
and only the first two are allowed.  For damage inside the .ao header and section table the
extracted reader model predicts the outcome (and, for a refusal, the diagnostic); prediction and
observation are compared.
"""
import json, os, re, shutil, struct, time
import concurrent.futures

from vlib import common as C
from props import c05

ID = "C17"
LEVEL = "fault_enumeration"
MANIFEST = {
    "level_text": "Machine-checked proof (Coq) that the library header/section-table reader refuses every "
                  "proper prefix of a written library file, loads every intact one and is total with the "
                  "outcomes refuse / load; fault enumeration on the rebuilt compiler: every "
                  "truncation length and single-byte substitutions of real .ao/.al/.fm files, outcome "
                  "classified and compared with the model's prediction in the header/section-table region.",
    "level_note": "Only the header + section table is modelled; what the compiler does with damaged "
                  "section CONTENTS (symes, types, FOAM bytes), with a damaged archive directory or .fm text is "
                  "enumerated, not proved. Trusted: Coq kernel, extraction, driver.ml conversions, the "
                  "outcome classifier below.",
    "technique": "Coq proof of the header reader model + fault enumeration against the real compiler "
                 "(exhaustive truncations of small files, header/table substitutions, sampled body substitutions)",
    "design_ref": "DESIGN.md section 4 / C17",
}

FAULT_RE = re.compile(r"Program fault|Compiler bug|Bug:|segmentation|abort process|Assertion|assert\b|core dumped|stack overflow", re.I)
DIAG_RE = re.compile(r"Error|Fatal|Library format|Could not|Syntax|cannot|bad ", re.I)

REFUSAL_TEXT = {"ShortHeader": "bad section header", "BadMagic": "bad magic number", "BadVersion": "obsolete version",
                "BadNumSect": "bad number of sections", "BadSectName": "bad section name",
                "BadSectHdr": "bad section header", "SectBeyondFile": "offset out of range", "DupSect": "duplicate section",
                "ShortSection": "offset out of range"}

LIB_SRC = '''#include "aldor"
Foo: with { f: MachineInteger -> MachineInteger; g: () -> String; } == add {
  f(x: MachineInteger): MachineInteger == x + 41;
  g(): String == "from-lib";
}
'''
CLIENT = '''#include "aldor"
#include "aldorio"
#library LL "%s"
import from LL;
import from Foo, MachineInteger, String;
stdout << f(1) << " " << g() << newline;
'''
WHOLE = '''#include "aldor"
#include "aldorio"
import from MachineInteger, String;
h(x: MachineInteger): MachineInteger == x * 3 + 1;
stdout << h(13) << " whole" << newline;
'''


# A consumer whose result depends on a LATER archive member without requiring it: member 2 extends a domain
# of member 1 with a category, the consumer tests `S has Describable` at run time.
SHAPE = '''#include "aldor"
Describable: Category == with { describe: % -> String };
Shape: with { unit: () -> % } == add {
	Rep == MachineInteger;
	import from Rep;
	unit(): % == per 1;
}
'''
SHAPEX = '''#include "aldor"
#library SH "shape.ao"
import from SH;
extend Shape: Describable == add {
	describe(s: %): String == "a described shape";
}
'''
USE = '''#include "aldor"
#include "aldorio"
#library T "libshape.al"
import from T;
import from String;
show(S: with { unit: () -> % }): () == {
	if S has Describable then
		stdout << (describe(unit()$S)$S) << newline;
	else
		stdout << "an anonymous shape" << newline;
}
show(Shape);
'''


def ar_layout(d):
    """[(header offset, data size)] of every member of an ar archive (raw structure, '//' included)."""
    out, pos = [], 8
    while pos + 60 <= len(d):
        try:
            size = int(d[pos + 48:pos + 58].decode("ascii").strip() or "0")
        except ValueError:
            break
        out.append((pos, size))
        pos += 60 + size + (size & 1)
    return out


def cut_kind(layout, k):
    """'boundary' | 'inside' (strictly inside a header or data) | 'padding' (only a final padding byte missing) | 'magic'"""
    if k < 8:
        return "magic"
    for h, size in layout:
        if k == h:
            return "boundary"
        if h < k < h + 60 + size:
            return "inside"
        if k == h + 60 + size and size & 1:
            return "padding"
    return "boundary"


def classify(rc, out, ref):
    """ref = (rc, out) of the intact run."""
    if rc == 124:
        return "hang"
    if rc < 0 or rc >= 128 or FAULT_RE.search(out):
        return "fault"
    if (rc, out) == ref:
        return "same"
    if rc == 0:
        return "silent-different"
    if DIAG_RE.search(out):
        return "refused"
    return "fault"      # non-zero exit without any diagnostic


class World:
    """The valid files and the commands that read them."""

    def __init__(self, exe, work):
        self.exe, self.work = exe, work
        self.n = 0

    def al(self, args, cwd, timeout=20):
        rc, out, err, dt = c05.aldor(self.exe, args, cwd, timeout)
        if rc == 124 and timeout < 60:
            # no exit within 20 s: on a loaded machine that may only be slowness -- one retry with 60 s decides
            rc, out, err, dt = c05.aldor(self.exe, args, cwd, 60)
        return rc, out + err

    def build(self):
        d = self.work + "/build"
        os.makedirs(d)
        open(d + "/lib1.as", "w").write(LIB_SRC)
        rc, out = self.al(["-Fao", "-Ffm", "lib1.as"], d)
        if rc != 0:
            raise C.BuildError("library unit does not compile: " + out[-300:])
        self.lib_ao = open(d + "/lib1.ao", "rb").read()
        self.lib_fm = open(d + "/lib1.fm", "rb").read()
        C.run(["ar", "cr", "liblib1.al", "lib1.ao"], cwd=d, timeout=30)
        self.lib_al = open(d + "/liblib1.al", "rb").read()
        open(d + "/whole.as", "w").write(WHOLE)
        rc, out = self.al(["-Fao", "-Ffm", "whole.as"], d)
        if rc != 0:
            raise C.BuildError("whole unit does not compile: " + out[-300:])
        self.whole_ao = open(d + "/whole.ao", "rb").read()
        self.whole_fm = open(d + "/whole.fm", "rb").read()
        # scenarios: name -> (damaged file name, intact bytes, other files, command)
        self.scen = {
            "ao-lib": ("lib1.ao", self.lib_ao, {"cl.as": (CLIENT % "lib1.ao").encode()}, ["-ginterp", "cl.as"]),
            "al-lib": ("liblib1.al", self.lib_al, {"cl.as": (CLIENT % "liblib1.al").encode()}, ["-Y.", "-ginterp", "cl.as"]),
            "fm-lib": ("lib1.fm", self.lib_fm, {}, ["-Fc=out.c", "-Flsp=out.lsp", "lib1.fm"]),
            "ao-unit": ("whole.ao", self.whole_ao, {}, ["-laldor", "-Fc=out.c", "-ginterp", "whole.ao"]),
            "fm-unit": ("whole.fm", self.whole_fm, {}, ["-laldor", "-Fc=out.c", "-ginterp", "whole.fm"]),
        }
        for nm, txt in (("shape.as", SHAPE), ("shapex.as", SHAPEX)):
            open(d + "/" + nm, "w").write(txt)
        rc, out = self.al(["-Fao", "shape.as"], d)
        rc2, out2 = self.al(["-Fao", "shapex.as"], d)
        if rc != 0 or rc2 != 0:
            raise C.BuildError("shape units do not compile: " + (out + out2)[-300:])
        C.run(["ar", "cr", "libshape.al", "shape.ao", "shapex.ao"], cwd=d, timeout=30)
        self.shape_al = open(d + "/libshape.al", "rb").read()
        self.scen["al-opt"] = ("libshape.al", self.shape_al, {"use.as": USE.encode()}, ["-Y.", "-ginterp", "use.as"])
        self.ref = {}
        for s in self.scen:
            self.ref[s] = self.run(s, self.scen[s][1], "ref-" + s)
            if self.ref[s][0] != 0:
                raise C.BuildError("intact scenario %s fails: %s" % (s, self.ref[s][1][-300:]))

    def run(self, scen, data, tag):
        fname, _, others, cmd = self.scen[scen]
        d = "%s/r/%s" % (self.work, tag)
        os.makedirs(d)
        with open(d + "/" + fname, "wb") as f:
            f.write(data)
        for k, v in others.items():
            with open(d + "/" + k, "wb") as f:
                f.write(v)
        rc, out = self.al(cmd, d)
        outs = ""
        for e in ("out.c", "out.lsp"):
            try:
                t = open(d + "/" + e, errors="replace").read()
                outs += "\n--%s--\n" % e + re.sub(r'(generated by Aldor from file ")[^"]*(")', r"\1X\2", t, count=1)
            except OSError:
                pass
        shutil.rmtree(d, ignore_errors=True)
        return rc, out + outs


def ao_region(info, data, off):
    lib = info["lib"]
    if off < 12:
        return "header"
    if off < lib["hdr_size"]:
        return "section-table"
    for i in range(lib["name_limit"]):
        n, o, l = struct.unpack_from("<BII", data, 12 + lib["sect_size"] * i)
        if n < lib["name_limit"] and o <= off < o + l:
            return "section=" + info["sect_names"][n]
    return "beyond"


def region_of(info, scen, data, off):
    if scen.startswith("ao"):
        return ao_region(info, data, off)
    if scen.startswith("al"):
        if off < 8:
            return "ar-magic"
        # members: 60-byte header then data (even-padded); the .ao is the only member
        pos = 8
        while pos + 60 <= len(data):
            size = int(data[pos + 48:pos + 58].decode("ascii", "replace").strip() or "0")
            if off < pos + 60:
                return "ar-member-header"
            if off < pos + 60 + size:
                return "member/" + ao_region(info, data[pos + 60:pos + 60 + size], off - pos - 60)
            pos += 60 + size + (size & 1)
        return "ar-tail"
    return "text"


def model_predict(drv, data):
    a = drv.ask("libo " + c05.hexb(data), timeout=60)
    return a or "DRIVER-DIED"


def enumerate_faults(rep, tier, info, world):
    rng = C.rng("C17/faults")
    lib = info["lib"]
    cases = []      # (scen, kind, off, data)

    def trunc_lengths(n, full, sample):
        if full:
            return list(range(n))
        head = set(range(0, min(n, 400))) | set(range(max(0, n - 200), n))
        rest = [k for k in range(n) if k not in head]
        return sorted(head | set(rng.sample(rest, min(sample, len(rest)))))
    thorough = tier != "quick"
    cdir = os.path.join(C.VERIF, "corpus", ID)
    if os.path.isdir(cdir):
        for f in sorted(os.listdir(cdir)):
            if f.endswith(".json"):
                it = json.load(open(os.path.join(cdir, f)))
                data = world.scen[it["scenario"]][1]
                off = it["offset"] if it["offset"] >= 0 else len(data) + it["offset"]
                if it["damage"] == "truncation":
                    cases.append((it["scenario"], "truncation", off, data[:off]))
                else:
                    cases.append((it["scenario"], "single-byte", off, data[:off] + bytes([it["new_byte"]]) + data[off + 1:]))
    opt = world.scen["al-opt"][1]
    lay = ar_layout(opt)
    ks = set(range(0, 9))
    for h, size in lay:
        ks |= set(range(h, h + 61)) | {h + 60 + size, h + 60 + size + (size & 1)}
        body = list(range(h + 61, h + 60 + size))
        ks |= set(body if thorough else rng.sample(body, min(120, len(body))))
    for k in sorted(x for x in ks if x < len(opt)):
        cases.append(("al-opt", "truncation", k, opt[:k]))
    for scen in world.scen:
        if scen == "al-opt":
            continue
        data = world.scen[scen][1]
        full = thorough or scen == "ao-lib" or len(data) < 3000
        for k in trunc_lengths(len(data), full, 1500 if scen == "al-lib" else 250):
            cases.append((scen, "truncation", k, data[:k]))
    vals = lambda b: sorted({b ^ 0x01, b ^ 0x80, 0x00, 0xFF} - {b})
    for scen in world.scen:
        if scen == "al-opt":
            continue
        data = world.scen[scen][1]
        offs = []
        if scen.startswith("ao"):
            offs = list(range(lib["hdr_size"]))
        elif scen.startswith("al"):
            offs = list(range(0, 68 + lib["hdr_size"]))
        else:
            offs = list(range(0, min(len(data), 120)))
        body = [o for o in range(len(data)) if o not in set(offs)]
        nb = (200 if scen in ("ao-lib", "ao-unit") else 100) if not thorough else min(len(body), 3000)
        offs_body = rng.sample(body, min(nb, len(body)))
        for o in offs:
            for v in vals(data[o]):
                cases.append((scen, "single-byte", o, data[:o] + bytes([v]) + data[o + 1:]))
        for o in offs_body:
            for v in (vals(data[o]) if thorough else rng.sample(vals(data[o]), 2)):
                cases.append((scen, "single-byte", o, data[:o] + bytes([v]) + data[o + 1:]))
    stats = {"cases": len(cases), "by_class": {}, "by_scen": {}, "model_compared": 0, "model_agree": 0}
    seen = set()
    nworkers = min(16, C.NCPU)

    def work(ix):
        drv = c05.Line(c05.build_driver())
        res = []
        for i in range(ix, len(cases), nworkers):
            scen, kind, off, data = cases[i]
            rc, out = world.run(scen, data, "c%d" % i)
            cls = classify(rc, out, world.ref[scen])
            pred = None
            intact = world.scen[scen][1]
            if scen.startswith("ao") and (kind == "truncation" or off < lib["hdr_size"]):
                pred = model_predict(drv, data)
            res.append((i, cls, rc, out[-400:], pred))
        drv.close()
        return res
    with concurrent.futures.ThreadPoolExecutor(nworkers) as ex:
        results = [r for part in ex.map(work, range(nworkers)) for r in part]
    results.sort()
    for i, cls, rc, out, pred in results:
        scen, kind, off, data = cases[i]
        intact = world.scen[scen][1]
        stats["by_class"][cls] = stats["by_class"].get(cls, 0) + 1
        stats["by_scen"].setdefault(scen, {}).setdefault(kind, 0)
        stats["by_scen"][scen][kind] += 1
        region = region_of(info, scen, intact, min(off, len(intact) - 1))
        rp = {"kind": "fault", "scenario": scen, "damage": kind, "offset": off, "file": world.scen[scen][0],
              "new_byte": (data[off] if kind == "single-byte" else None), "old_byte": intact[off] if off < len(intact) else None,
              "intact_hex": intact.hex() if len(intact) < 20000 else None, "command": world.scen[scen][3],
              "rc": rc, "output": out, "class": cls, "model": pred}
        if cls not in ("same", "refused"):
            # key: file kind + region class + damage + outcome; the section name stays in the replay
            # (which sections a seeded sample of body offsets hits must not decide whether a run passes)
            rclass = re.sub(r"section=\w+", "contents", region).replace("member/", "member-")
            rp["region"] = region
            key = "%s:%s:%s:%s" % (scen.split("-")[0], rclass, kind, cls)
            if scen.startswith("al") and kind == "truncation" and cut_kind(ar_layout(intact), off) in ("boundary", "padding"):
                # a prefix that ends exactly between two members IS a valid archive (theorem ar_boundary_cut_accepted)
                key = "al:cut-at-member-boundary:%s" % cls
                rp["cut"] = cut_kind(ar_layout(intact), off)
            if pred is not None:
                # inside the modelled region the model's own outcome is part of the key: a fault the model
                # predicts (the Index bug) is a different defect from a fault where it predicts a refusal
                key += ":model=" + pred.split()[0]
            if key not in seen:
                seen.add(key)
                rep.violation("a %s file damaged by %s at offset %d (%s) is not refused: %s" % (
                    world.scen[scen][0], kind, off, region, cls), rp, key=key)
        if pred is not None:
            stats["model_compared"] += 1
            ok = True
            if pred.startswith("REFUSED"):
                want = REFUSAL_TEXT.get(pred.split()[1], "?")
                ok = cls == "refused" and want in out
            elif pred == "FAULT":
                ok = cls == "fault" and "Index[Name[i]] != i" in out
            elif pred == "LOADED":
                ok = not any(t in out for t in ("bad magic", "obsolete version", "bad number of sections", "bad section name",
                                                 "bad section header", "duplicate section"))
            else:
                ok = False
            if ok:
                stats["model_agree"] += 1
            elif ("model", scen, kind, pred.split()[0], cls) not in seen:
                seen.add(("model", scen, kind, pred.split()[0], cls))
                if cls in ("same", "refused"):
                    rep.violation("correspondence C17/header no longer checks: model predicts %s, compiler: %s (%s at %d)" % (
                        pred, cls, kind, off), rp, no_input=True)
                # otherwise the keyed violation above already carries the failing input
    return stats


def py_ar_members(d):
    """Independent reading of an ar(1) archive (GNU long names): [(name, data offset)] of the *.ao members."""
    if d[:8] != b"!<arch>\n":
        return None
    out, pos, table = [], 8, b""
    while pos + 60 <= len(d):
        h = d[pos:pos + 60]
        name = h[:16].decode("latin1")
        try:
            size = int(h[48:58].decode("ascii").strip() or "0")
        except ValueError:
            break
        data = pos + 60
        if name.startswith("//"):
            table = d[data:data + size]
        else:
            if name.startswith("/") and name[1:].strip().isdigit():
                i = int(name[1:].strip())
                nm = re.split(rb"[/\n\0]", table[i:])[0].decode("latin1")
            else:
                nm = re.split(r"[/ \0]", name)[0]
            if re.search(r".\.ao$", nm) and data < len(d):
                out.append((nm, data))
        pos = data + size + (size & 1)
    return out


def stage_archives(rep, tier, info):
    """read_ar (extracted) versus archive.c's arRead (harness) versus an independent parser, on the .al files
    of the built tree and on a generated archive with long member names, and on every prefix of a small one."""
    import glob
    drv, har = c05.Line(c05.build_driver()), c05.Line(c05.build_harness())
    rng = C.rng("C17/ar")
    als = sorted(set(glob.glob(C.RB + "/**/*.al", recursive=True)))
    if tier == "quick":
        small = [f for f in als if os.path.getsize(f) < 400000]
        als = rng.sample(small, min(25, len(small)))
    st = {"archives": 0, "members": 0, "prefixes": 0, "bad": 0}
    work = C.scratch("c17ar")
    # a generated archive: long names force the "//" name table and "/N" indirect names
    names = ["a.ao", "averyveryverylongmembername.ao", "notanobject.txt", "Second_Long_Member_Name_42.ao", "z.ao"]
    for i, nm in enumerate(names):
        open(os.path.join(work, nm), "wb").write(bytes(rng.randrange(256) for _ in range(rng.choice([1, 2, 7, 60, 61]))))
    C.run(["ar", "cr", "gen.al"] + names, cwd=work, timeout=30)
    als = [os.path.join(work, "gen.al")] + als

    def members_of(ans):
        if ans is None:
            return None
        if ans.startswith("NOTARCH"):
            return "NOTARCH"
        body = ans.split(" | ")[0].split()[1:]
        return [(bytes.fromhex(x.split(":")[0]).decode("latin1"), int(x.split(":")[1], 16)) for x in body]
    def reduced(d):
        """The same archive with every member's data cut to at most 64 bytes (size fields rewritten; the '//' name
        table and every header kept): the extracted reader walks the file from its start for every field, which is
        quadratic for multi-megabyte archives, and the member data is irrelevant to finding the members."""
        out, pos = bytearray(d[:8]), 8
        while pos + 60 <= len(d):
            h = d[pos:pos + 60]
            try:
                size = int(h[48:58].decode("ascii").strip() or "0")
            except ValueError:
                return None
            data = d[pos + 60:pos + 60 + size]
            if not h.startswith(b"//") and size > 64:
                data = data[:64]
            out += h[:48] + (b"%-10d" % len(data)) + h[58:60] + data + (b"\n" if len(data) & 1 else b"")
            pos += 60 + size + (size & 1)
        return bytes(out)
    st["reduced"] = 0
    for f in als:
        d = open(f, "rb").read()
        st["archives"] += 1
        if len(d) > 400000:
            # full file: archive.c against the independent parser; model on the reduced archive below
            c0 = har.ask("armembers " + f, timeout=300)
            try:
                cm0 = [(bytes.fromhex(x.split(":")[0]).decode("latin1"), int(x.split(":")[1], 16)) for x in (c0 or "").split("|")[0].split()]
                e0 = int(c0.split("|")[1].strip()[1:])
            except Exception:
                cm0, e0 = None, None
            if cm0 != py_ar_members(d) or e0 != 0:
                st["bad"] += 1
                rep.violation("archive.c does not find the members of an intact archive: %s" % os.path.basename(f),
                              {"kind": "ar", "file": f, "arRead": str(cm0)[:300], "expected": str(py_ar_members(d))[:300], "errors": e0},
                              key="ar:intact:members-differ")
                continue
            rd = reduced(d)
            if rd is None:
                continue
            st["reduced"] += 1
            f = os.path.join(work, "reduced-%d.al" % st["archives"])
            open(f, "wb").write(rd)
            d = rd
        a = drv.ask("ar " + c05.hexb(d), timeout=600)
        m = members_of(a)
        c = har.ask("armembers " + f, timeout=120)
        try:
            cm = [(bytes.fromhex(x.split(":")[0]).decode("latin1"), int(x.split(":")[1], 16)) for x in (c or "").split("|")[0].split()] if c is not None else None
            if c is not None and int(c.split("|")[1].strip()[1:]) != 0:
                cm = cm + [("<%s diagnostics on an intact archive>" % c.split("|")[1].strip(), -1)]
        except (ValueError, IndexError):
            cm = [("<arRead printed: %s>" % (c or "")[:120], -1)]        # a diagnostic instead of a member list
        pm = py_ar_members(d)
        st["members"] += len(m) if isinstance(m, list) else 0
        diag = a.split(" | ")[1].strip() if (a and " | " in a) else ""
        if pm is not None and cm is not None and cm != pm:
            st["bad"] += 1
            rep.violation("archive.c does not find the members of an intact archive: %s" % os.path.basename(f),
                          {"kind": "ar", "file": f, "arRead": str(cm)[:300], "expected": str(pm)[:300]}, key="ar:intact:members-differ")
        elif m != cm or diag:
            st["bad"] += 1
            rep.violation("correspondence C17/archive no longer checks: read_ar (model) and arRead disagree on %s" % os.path.basename(f),
                          {"kind": "ar", "file": f, "model": str(m)[:300], "arRead": str(cm)[:300], "diag": diag}, no_input=True)
    # every prefix of the generated archive: members AND the refusal bit (did reading raise ALDOR_E_ArTruncated /
    # ArBadNumber?) -- model, archive.c (arRead on the prefix written to a file) and the layout oracle:
    # a cut strictly inside a member's 60-byte header or its data must be reported.
    d = open(os.path.join(work, "gen.al"), "rb").read()
    full = py_ar_members(d)
    lay = ar_layout(d)
    seen = set()
    st["prefix_refused"] = 0
    for k in range(len(d)):
        st["prefixes"] += 1
        a = drv.ask("ar " + c05.hexb(d[:k]), timeout=60)
        m = members_of(a)
        mdiag = len(a.split(" | ")[1].split()) if (a and " | " in a) else 0
        pf = os.path.join(work, "prefix.al")
        open(pf, "wb").write(d[:k])
        c = har.ask("armembers " + pf, timeout=60)
        try:
            cpart, epart = c.split("|")
            cm = [(bytes.fromhex(x.split(":")[0]).decode("latin1"), int(x.split(":")[1], 16)) for x in cpart.split()]
            cerr = int(epart.strip()[1:])
        except Exception:
            cm, cerr = None, None
        kind = cut_kind(lay, k)
        want_refused = (kind == "inside")
        st["prefix_refused"] += 1 if cerr else 0
        rp = {"kind": "ar-prefix", "k": k, "cut": kind, "archive_hex": d.hex(), "arRead": str(cm)[:200], "arRead_errors": cerr,
              "model": str(m)[:200], "model_diag": mdiag}
        if cerr is None:
            # the harness died: arReadNameTable asks for (next - ftell) bytes, a size_t underflow when the header of
            # the "//" name table itself is cut; the compiler proper survives this (checked end to end) -- counted, not judged
            st["harness_died"] = st.get("harness_died", 0) + 1
            if kind != "inside":
                rep.violation("arRead dies on a prefix that ends %s a member" % kind, rp, key="al:%s-cut:fault" % kind)
            continue
        # the property, on the implementation
        if want_refused and cerr == 0:          # (a diagnostic at a boundary, e.g. right after a name table, is allowed)
            key = "al:%s-cut:%s" % (kind, "reported" if cerr else "not-reported")
            if key not in seen:
                seen.add(key)
                rep.violation("archive.c reading a %d-byte prefix (cut %s a member) raises %s diagnostic(s)" % (
                    k, "inside" if kind == "inside" else "at the " + kind + " of", cerr), rp, key=key)
            continue
        # model versus implementation
        if k >= 8 and (m != cm or (mdiag > 0) != (cerr > 0)) and "model" not in seen:
            seen.add("model")
            rep.violation("correspondence C17/archive no longer checks: read_ar and arRead differ on a %d-byte prefix "
                          "(members %s / %s, diagnostics %s / %s)" % (k, str(m)[:80], str(cm)[:80], mdiag, cerr), rp, no_input=True)
    drv.close()
    har.close()
    return st


def run(rep, tier):
    t0 = time.time()
    try:
        info = c05.generate()
    except c05.foaminfo_gen.GenError as e:
        rep.violation("translator no longer reads lib.c/lib.h/foam.c: %s" % e, {"error": str(e)}, no_input=True)
        return
    state = {"info": info}

    def searcher(log):
        try:
            exe = C.build_compiler()
            w = World(exe, C.scratch("c17s"))
            w.build()
            enumerate_faults(rep, "quick", info, w)
        except Exception as e:
            rep.notes.append("searcher: %r" % e)
    ok = C.proof_stage(rep, ID, ["Props/Properties_C17.vo", "Foam/Extract.vo"], "Props/Properties_C17.v", searcher)
    t1 = time.time()
    if not ok:
        return
    exe = C.build_compiler()
    c05.build_driver()
    world = World(exe, C.scratch("c17"))
    try:
        world.build()
    except C.BuildError as e:
        # the INTACT files are not accepted: the other half of the property (intact_loaded)
        rep.violation("an intact library/unit file is not read back: %s" % str(e)[:200],
                      {"kind": "intact", "lib_source": LIB_SRC, "whole_source": WHOLE, "message": str(e)},
                      key="intact-file:not-loaded")
        return
    t2 = time.time()
    st = enumerate_faults(rep, tier, info, world)
    t3 = time.time()
    ar = stage_archives(rep, tier, info)
    t4 = time.time()
    sizes = {s: len(world.scen[s][1]) for s in world.scen}
    rep.add_cov(evaluations=st["cases"], distinct_nontrivial=st["cases"],
                traces_validated_against_impl=st["model_compared"],
                rule="quick: every truncation length of lib1.ao and of files < 3000 bytes; liblib1.al: first 400 + last 200 + 1500 sampled lengths; "
                     "the others: first 400 + last 200 + 250 sampled; substitutions (^0x01, ^0x80, 0x00, 0xFF) at every offset of header + section table (and ar headers), "
                     "sampled offsets elsewhere; thorough: every length of every file, 3000 body offsets",
                samples=[{"scenario": s, "file": world.scen[s][0], "bytes": sizes[s], "cmd": world.scen[s][3]} for s in world.scen],
                input_distribution={"by_class": st["by_class"], "by_scenario": st["by_scen"],
                                    "model_compared": st["model_compared"], "model_agree": st["model_agree"], "archives": ar},
                stage_seconds={"generate+proof": round(t1 - t0, 1), "build": round(t2 - t1, 1), "enumerate": round(t3 - t2, 1), "archives": round(t4 - t3, 1)})
    rep.assume(
        "outcome classes: fault = signal / exit >= 128 / 'Program fault' / 'Compiler bug' / 'Bug:' / abort / non-zero exit without diagnostic; "
        "hang = no exit within 20 s and, retried, none within 60 s; refused = non-zero exit with a diagnostic; same = exit status, stdout+stderr and generated C/Lisp identical to the intact run",
        "only header + section table are modelled (read_lib); other regions are enumerated without prediction",
        "the model prediction for a refusal includes the diagnostic text of the refusing check",
        "archive made with ar(1) holding the one unit; .fm read back through -Fc/-Flsp (and -ginterp for the printing unit)",
    )


def replay(path):
    rp = json.load(open(path))["replay"]
    if rp.get("kind") == "intact":
        try:
            World(C.build_compiler(), C.scratch("c17r")).build()
            print("intact files load")
            return 0
        except C.BuildError as e:
            print("REPRODUCED: %s" % e)
            return 1
    if rp.get("kind") != "fault":
        print("nothing to re-run")
        return 1
    info = c05.generate()
    w = World(C.build_compiler(), C.scratch("c17r"))
    w.build()
    scen = rp["scenario"]
    intact = w.scen[scen][1]
    if rp["damage"] == "truncation":
        data = intact[:rp["offset"]]
    else:
        o = rp["offset"]
        data = intact[:o] + bytes([rp["new_byte"]]) + intact[o + 1:]
    rc, out = w.run(scen, data, "replay")
    cls = classify(rc, out, w.ref[scen])
    print("class=%s rc=%s\n%s" % (cls, rc, out[-400:]))
    return 0 if cls in ("same", "refused") else 1
