"""C08 - Compiler output is a function of its input only.

Decision: metamorphic runs of the compiler rebuilt from the current tree (with the
forced-collection hook): the same sources under {repeat, ASLR off, -Wno-gc, forced
collection every k-th allocation, other working directory, other environment,
batched invocation}; byte comparison of .ao .fm .c .lsp .java and of the message
stream.  Supporting theorems (coq/Props/Properties_C08.v): which shapes of code are
independent of addresses.
"""
import concurrent.futures, hashlib, json, os, re, shutil
from vlib import common as C

LEVEL = "exploration"
MANIFEST = {
    "level_text": "Exploration by metamorphic runs: every program x every perturbation of the things the output must not "
                  "depend on (run, address-space layout, collector on/off/forced at every k-th allocation through the "
                  "guarded hook, working directory, environment, batching), outputs compared byte for byte. Coq lemmas "
                  "state for all address assignments which code shapes are address-independent (iterate a pointer-keyed "
                  "table then order by a total content key; content hashes never read addresses); they do not audit all "
                  "pointer-keyed tables of the compiler - that part of the claim is only explored.",
    "level_note": "Trusted: the perturbation harness (setarch -R, env padding, ALDOR_VERIF_GC hook in stoAlloc), byte "
                  "comparison. Not modelled: the compiler's 20 pointer-keyed tables and their uses; the OS.",
    "technique": "metamorphic differential runs (ASLR / GC schedule / cwd / env / batching) + Coq lemmas on address-independence",
}
PROPS = "Props/Properties_C08.v"
TARGETS = ["Props/Properties_C08.vo"]
OUT_KINDS = ["ao", "fm", "c", "lsp", "java"]


def programs(rnd, n):
    """deterministic sample of corpus programs that compile standalone with axllib"""
    base = C.RB + "/lib/axllib/test"
    names = sorted(d for d in os.listdir(base) if os.path.isfile("%s/%s/%s.as" % (base, d, d)))
    rnd.shuffle(names)
    res = []
    for nme in names:
        p = "%s/%s/%s.as" % (base, nme, nme)
        if os.path.getsize(p) < 6000:
            res.append((nme, open(p, "rb").read()))
        if len(res) >= n:
            break
    return res


# option profiles: the outputs must be a function of (sources, options) for EVERY option set; a profile is
# drawn per group of programs (debug information, line-number preservation, optimisation level ...)
PROFILES = [
    ["-Q2"],
    ["-Q3"],
    ["-Q1", "-Zdb", "-Clines"],
    ["-Q0", "-Cstandard"],
    ["-Q5", "-Cno-lines"],
]


def comp_args(exe, extra=(), profile=0, lib="axllib"):
    RB = C.RB
    return [exe, "-Nfile=%s/aldor/src/aldor.conf" % RB, "-Y%s/aldor/lib/libfoam/al" % RB,
            "-I%s/lib/%s/include" % (RB, lib), "-Y%s/lib/%s/src" % (RB, lib), "-Mno-emax"] + PROFILES[profile % len(PROFILES)] + \
           ["-Fao", "-Ffm", "-Fc", "-Flsp", "-Fjava"] + list(extra)


def aldor_programs(rnd, n):
    """programs over the newer library (#include "aldor"): units whose object files carry many imported symbols
    (the two libraries exercise different parts of the object-file writer).  One fixed program that imports a wide
    range of operations, plus MiniAldor-generated programs (seeded)."""
    wide = """#include "aldor"
#include "aldorio"
import from MachineInteger, Integer, String, Character, Boolean;
import from List MachineInteger, List Integer, Array MachineInteger, List String;
a: MachineInteger := 11; b: MachineInteger := 4;
stdout << a + b << " " << a - b << " " << a * b << " " << a quo b << " " << a rem b << newline;
stdout << max(a, b) << " " << min(a, b) << " " << abs(a) << " " << -a << " " << a^2 << newline;
stdout << (a = b) << " " << (a < b) << " " << (a >= b) << " " << zero? a << " " << odd? a << " " << even? b << newline;
x: Integer := 98765432109876543210; y: Integer := 1234567;
stdout << x + y << " " << x - y << " " << x * y << " " << x quo y << " " << x rem y << " " << gcd(x, y) << newline;
stdout << (x < y) << " " << abs(-x) << " " << x^2 << " " << factorial(12@Integer) << " " << length x << newline;
l: List MachineInteger := [5, 6, 7, 8];
stdout << #l << " " << first l << " " << rest l << " " << reverse l << " " << empty? l << " " << cons(0, l) << " " << l.2 << newline;
li: List Integer := [x, y, x - y];
stdout << #li << " " << first li << " " << reverse li << newline;
ar: Array MachineInteger := new(4, 2);
ar.1 := 9; ar.2 := ar.1 + 1;
stdout << #ar << " " << ar.1 << " " << ar << newline;
s: String := "determinism";
stdout << #s << " " << s.1 << " " << upper s << " " << (s = s) << " " << s + "!" << newline;
ls: List String := [s, upper s];
stdout << #ls << " " << first ls << newline;
c: Character := char "q";
stdout << c << " " << upper c << " " << ord c << " " << letter? c << " " << digit? c << newline;
stdout << (true and false) << " " << (true or false) << " " << ~true << newline;
"""
    res = [("wide", wide.encode())]
    try:
        from props import mini
        seeds = [rnd.randrange(1, 10**9) for _ in range(max(0, n - 1))]
        for i, g in enumerate(mini.gen(seeds, 30)):
            if g and g.get("src"):
                res.append(("mini%d" % i, g["src"].encode()))
    except Exception as e:          # the generator belongs to another check: its absence only narrows the sample
        res.append(("wide2", wide.replace("determinism", "function of input").encode()))
    return res


def big_program(n):
    """a large unit (about 11*n lines, axllib): the compiler's heap grows enough for its collector to matter"""
    L = ['#include "axllib"', "", "import from SingleInteger, List SingleInteger;", ""]
    for i in range(n):
        L += ["g%d(l: List SingleInteger, k: SingleInteger): SingleInteger == {" % i,
              "\ts: SingleInteger := %d;" % i,
              "\tfor x in l repeat {",
              "\t\tif x > k then s := s + x * %d;" % (i % 7 + 1),
              "\t\telse s := s - x;",
              "\t}",
              "\tm := [x + %d for x in l];" % (i % 5),
              "\ts + #m + first reverse m;",
              "}", ""]
    L += ["t: SingleInteger := 0;"] + ["t := t + g%d([1,2,3], %d);" % (i, i % 3) for i in range(n)] + ["print << t << newline;"]
    return ("\n".join(L) + "\n").encode()


def collect(d, names):
    out = {}
    for n in names:
        for k in OUT_KINDS:
            p = "%s/%s.%s" % (d, n, k) if k != "java" else "%s/aldorcode/%s.java" % (d, n)
            out["%s.%s" % (n, k)] = hashlib.sha1(open(p, "rb").read()).hexdigest() if os.path.isfile(p) else None
    return out


def run_variant(exe, work, tag, progs, variant, profile=0, lib="axllib"):
    """returns (variant, outputs hash map, normalised message text)"""
    kind = variant[0]
    d = "%s/%s" % (work, tag)
    if kind == "cwd":
        d = "%s/%s/deeper/and/deeper_%s" % (work, tag, "x" * 40)
    os.makedirs(d)
    for n, src in progs:
        open("%s/%s.as" % (d, n), "wb").write(src)
    env = C.aldor_env()
    pre = []
    extra = []
    if kind == "noaslr":
        pre = ["setarch", "x86_64", "-R"]
    elif kind == "nogc":
        extra = ["-Wno-gc"]
    elif kind == "gc":
        extra = ["-Wgc"]
    elif kind == "forcegc":
        env["ALDOR_VERIF_GC"] = "%d:%d" % (variant[1], variant[2])
    elif kind == "env":
        for i in range(variant[1]):
            env["VERIF_PAD_%d" % i] = "y" * (17 * i + 3)
    texts = []
    rcs = []
    if kind == "batched":
        rc, out, err = C.run(pre + comp_args(exe, extra, profile, lib) + [n + ".as" for n, _ in progs], cwd=d, env=env, timeout=900)
        texts.append(out + err)
        rcs.append(rc)
    else:
        for n, _ in progs:
            rc, out, err = C.run(pre + comp_args(exe, extra, profile, lib) + [n + ".as"], cwd=d, env=env, timeout=240)
            texts.append(out + err)
            rcs.append(rc)
    if 124 in rcs:
        return variant, None, "", rcs          # time limit: inconclusive, not compared
    msgs = "\n".join(texts)
    msgs = msgs.replace(d + "/", "")
    msgs = re.sub(r"^\s*$\n", "", msgs, flags=re.M)
    return variant, collect(d, [n for n, _ in progs]), msgs, rcs


def run(rep, tier):
    C.proof_stage(rep, "C08", TARGETS, PROPS, searcher=None, defer=True)
    exe = C.build_compiler()
    rnd = C.rng("c08")
    nprog = 7 if tier == "quick" else 40
    progs = programs(rnd, nprog)
    work = C.scratch("c08")
    variants = [("base",), ("repeat",), ("noaslr",), ("nogc",), ("gc",), ("cwd",), ("env", 5), ("env", 40)]
    # cost of a forced-collection compile on this machine: k=1000 ~2.5 s, k=200 ~12 s, k=50 ~55 s, k=7 > 5 min
    ks = [(5000, 0), (1000, 7), (300, 1)] if tier == "quick" else \
        [(k, j) for k in (40, 100, 333, 1000, 5000) for j in sorted({0, k // 2, k - 1})]
    variants += [("forcegc", k, j) for k, j in ks]
    # programs are handled in groups so that one slow forced-GC run does not serialise everything
    if tier == "quick":
        # one program per group, so that every option profile is used; one pair for the batched comparison
        groups = [[p] for p in progs[:5]] + [progs[5:7]]
    else:
        groups = [progs[i:i + 3] for i in range(0, len(progs), 3)]
    # one large unit per run, alone in its group (profile -Q3)
    groups.append([("big%d" % (100 if tier == "quick" else 160), big_program(100 if tier == "quick" else 160))])
    nbig = len(groups) - 1
    # units over the newer library: one group per program (quick: the wide unit + 2 generated; thorough: + 8)
    alds = aldor_programs(rnd, 3 if tier == "quick" else 9)
    first_ald = len(groups)
    groups += [[p] for p in alds]
    def prof(gi):
        return 1 if gi == nbig else gi      # the large unit at -Q3, the others cycle through the profiles
    def libof(gi):
        return "aldor" if gi >= first_ald else "axllib"
    jobs = []
    for gi, g in enumerate(groups):
        for vi, v in enumerate(variants):
            if gi == nbig and v[0] == "forcegc" and v[1] < 1000:
                continue        # the large unit under a dense forced-collection schedule takes minutes: sparse schedules only
            jobs.append((gi, g, v, "g%d_v%d" % (gi, vi)))
        jobs.append((gi, g, ("batched",), "g%d_batched" % gi))
    results = {}
    with concurrent.futures.ThreadPoolExecutor(C.NCPU) as ex:
        futs = {ex.submit(run_variant, exe, work, tag, g, v, prof(gi), libof(gi)): (gi, v) for gi, g, v, tag in jobs}
        for f in concurrent.futures.as_completed(futs):
            gi, v = futs[f]
            results[(gi, v)] = f.result()
    ncmp = 0
    diffs = 0
    timeouts = []
    samples = []
    for gi, g in enumerate(groups):
        base = results[(gi, ("base",))]
        if all(h is None for h in base[1].values()):
            rep.notes.append("group %d produced no outputs at all" % gi)
        for (gj, v), r in results.items():
            if gj != gi or v == ("base",):
                continue
            if r[1] is None or base[1] is None:
                timeouts.append([gi, list(v)])
                continue
            ncmp += 1
            bad_out = [k for k in base[1] if base[1][k] != r[1][k]]
            # the batched run numbers messages across files: compare message texts without the serial number
            if v[0] == "batched" and any(rc != 0 for rc in base[3]):
                continue      # a fatal error ends a batch: only error-free groups are compared batched
            norm = (lambda t: re.sub(r"(?m)^\w+\.as:\n?", "", re.sub(r"#\d+ ", "# ", t))) if v[0] == "batched" else (lambda t: t)
            bad_msg = norm(base[2]) != norm(r[2])
            if bad_out or bad_msg or base[3] != r[3] and v[0] != "batched":
                diffs += 1
                names = [n for n, _ in g]
                what = "outputs differ under perturbation %s with options %s: %s%s" % (
                    v, " ".join(PROFILES[prof(gi) % len(PROFILES)]), bad_out[:6], " and the message stream differs" if bad_msg else "")
                key = "nondet:%s:%s" % (v[0], ",".join(sorted({b.split('.')[-1] for b in bad_out})) or "messages")
                if v[0] == "batched" and bad_out and not bad_msg:
                    key = "nondet:batched:outputs"
                rep.violation(what, {"programs": names, "variant": list(v), "options": PROFILES[prof(gi) % len(PROFILES)], "differing": bad_out,
                                     "base_msgs": base[2][-800:], "variant_msgs": r[2][-800:]}, key=key)
        if len(samples) < 3:
            samples.append({"programs": [n for n, _ in g], "outputs": {k: (v[:8] if v else None) for k, v in list(base[1].items())[:6]}})
    rep.add_cov(evaluations=len(jobs), distinct_nontrivial=ncmp,
                rule="one evaluation = compiling a group of <=3 corpus programs under one perturbation; non-trivial = compared "
                     "against the base run of the same group (all outputs + message stream)",
                samples=samples, perturbations=[list(v) for v in variants] + [["batched"]], programs=len(progs) + 1 + len(alds),
                libraries={"axllib": first_ald, "aldor": len(alds)},
                option_profiles=PROFILES,
                differing_comparisons=diffs, inconclusive_time_limit=timeouts)
    rep.assume("setarch -R switches ASLR off; the default run has ASLR on",
               "ALDOR_VERIF_GC hook forces collections inside the compiler (guarded by -DALDOR_VERIF)",
               "outputs compared: .ao .fm .c .lsp .java produced at -Q2 and the diagnostics text")


def replay(path):
    r = json.load(open(path))
    print(json.dumps(r, indent=1)[:3000])
    rep = C.Report("C08", "quick", LEVEL)
    run(rep, "quick")
    return 1 if rep.violations else 0
