"""C06 -- Ill-typed programs are rejected, well-typed ones accepted.

Oracle: the type checker of the MiniAldor reference semantics (coq/Mini/Types.v) and the fault
catalogue coq/Mini/Mut.v (builder b-c01), re-exported in Props/Properties_C06.v.  Decision:
the compiler built from /repo's CURRENT sources

  * must ACCEPT every well-typed base program: exit 0, no "(Error)", the requested outputs
    -Fao -Ffm -Fc all present;
  * must REJECT every single-fault mutant at every eligible site: >= 1 "(Error)" naming a
    position [Lx Cy] that lies in the line range of the planted fault, exit status non-zero,
    and NO .ao/.c/.fm left behind.

Two catalogue entries the Coq model lacks ("a domain that lacks an export its category
requires", "use of an operation a parameter's category does not provide") are covered by
parametrised hand-written templates (this file, TEMPLATES), each with a well-typed twin
that must compile; they are validated against the real compiler only, not against a model.
"""
import collections, concurrent.futures, itertools, json, os, re, shutil, time
from vlib import common as C
from props import mini

ID = "C06"
LEVEL = "translation_validation"
MANIFEST = {
    "level_text": "Differential run against a machine-checked oracle, NOT a proof about the compiler's type checker: "
                  "Aldor's type satisfaction relation (tfsat.c:tfSat, tform.c, ti_bup.c, ti_tdn.c; ~10 kLOC over dependent "
                  "types) is not modelled.  Proved in Coq (Props/Properties_C06.v, closed under the global context): every "
                  "program of the unbounded generated family is well typed by the reference checker (gen_well_typed), every "
                  "mutant at an eligible site is ill typed by it, for each of the six modelled fault kinds and also when all "
                  "definitions of the file are visible everywhere (mutant_ill_typed*, mutant_ill_typed_file_scope), the "
                  "eligible sites are decidable and enumerated completely and once (eligible_dec, eligible_sites_sound / "
                  "_complete / _nodup), and generated programs do have sites of every kind (gen_has_sites).  The decision "
                  "itself is sampled: compiler built from the current tree on every base program and on every mutant.",
    "level_note": "`eligible` RUNS the oracle's checker on the mutant, so mutant_ill_typed holds by construction (b-c01's "
                  "caveat); it is meaningful because a mutation only substitutes or adds literals and names, so the reason "
                  "for rejection (name without meaning, call with no / two meanings, assigned constant, result of the wrong "
                  "type) is a rule Aldor shares -- and that agreement is exactly what the runs test, it is not proved.  The "
                  "two kinds 'domain lacks a required export' and 'operation not provided by the parameter's category' are "
                  "python templates with a well-typed twin, validated against the real compiler only (no Coq model).  "
                  "Trusted: Coq kernel, extraction (ExtrOcamlBasic), OCaml, the renderer Print.v, the line ranges computed by "
                  "Tool.v, the pre-built libaldor of /repo the programs are compiled against.",
    "technique": "Coq-proved oracle (well-typed generator + fault catalogue) + accept/reject differential against aldor built "
                 "from the current sources (exit status, diagnostics with positions, output files), text-level shrinking",
    "design_ref": "DESIGN.md section 4 / C06",
}

OUT_FLAGS = ("-Fao", "-Ffm", "-Fc")
OUT_FILES = {"p.ao", "p.fm", "p.c"}
ERR_POS = re.compile(r"\[L(\d+) C(\d+)\] #\d+ \((?:Fatal )?Error\)")
ERR_ANY = re.compile(r"\((?:Fatal )?Error\)")
CRASH = re.compile(r"Program fault|Compiler bug|segmentation violation|Bug:|Storage allocation error")
SIZES_QUICK = [4, 8, 12, 18, 25]
SIZES_THOROUGH = [4, 8, 12, 18, 25, 35]
_uniq = itertools.count()


# ------------------------------------------------------------------ running the compiler

def compile_src(aldor, src, base):
    """One compilation.  A timeout is retried once (oversubscribed machine; a real hang hangs again)."""
    for attempt in (0, 1):
        d = "%s/r%d" % (base, next(_uniq))
        try:
            r = mini.compile_only(aldor, src, d, extra=OUT_FLAGS, timeout=180)
        finally:
            shutil.rmtree(d, ignore_errors=True)
        if r["rc"] != 124:
            break
    r["out"] = r["out"] + r["err"]
    return r


def judge_accept(r):
    """None when the compiler accepted the program as the property demands, else the violation class."""
    if r["rc"] == 124:
        return "timeout"
    if r["rc"] != 0:
        return "well-typed-rejected" if ERR_ANY.search(r["out"]) else (
            "compiler-crash" if (r["rc"] < 0 or CRASH.search(r["out"])) else "nonzero-exit-without-error")
    if ERR_ANY.search(r["out"]):
        return "error-message-with-exit-0"
    if not OUT_FILES <= set(r["files"]):
        return "requested-output-missing"
    return None


FILE_LINE = re.compile(r'^"([^"\n]+)", line (\d+): ', re.M)


def error_positions(out):
    """(file, line, column) of every (Error): the file is the one named by the source-line echo
    that precedes the message (`"p.as", line 20: ...`), None if there is no echo."""
    res = []
    for m in ERR_POS.finditer(out):
        f = None
        for fm in FILE_LINE.finditer(out, 0, m.start()):
            f = os.path.basename(fm.group(1))
        res.append((f, int(m.group(1)), int(m.group(2))))
    return res


def judge_reject(r, ranges):
    """None when the compiler rejected the program as the property demands, else the violation class."""
    if r["rc"] == 124:
        return "timeout"
    left = [f for f in r["files"] if f.rsplit(".", 1)[-1] in ("ao", "c", "fm", "o", "h")]
    allpos = error_positions(r["out"])
    pos = [(l, c) for f, l, c in allpos if f in (None, "p.as")]
    if r["rc"] == 0:
        return "error-message-with-exit-0" if ERR_ANY.search(r["out"]) else "ill-typed-accepted"
    if not allpos or all(l <= 0 for f, l, c in allpos):
        if r["rc"] < 0 or CRASH.search(r["out"]):
            return "compiler-crash-without-positioned-error"
        return "error-without-position" if ERR_ANY.search(r["out"]) else "nonzero-exit-without-error"
    if not any(lo <= l <= hi for l, c in pos for lo, hi in ranges):
        return "error-position-outside-fault"
    if left:
        return "output-file-left-behind"
    return None


MACRO_LINE = re.compile(r"^(?:macro\s+\w+\(|\w+\([a-z, ]*\)\s*==>)")


def mutant_ranges(x):
    """Line ranges in which an error for this mutant may be reported: the form holding the
    fault.  ambiguous-overload: the second definition alone is legal Aldor (overloading on
    the result type); the fault is the pair, and the errors belong to the uses that can no
    longer choose -- the appended use (last line) and every other line that applies the
    name.  A fault inside a macro argument is reported "(After Macro Expansion)" at the
    macro's body in the header: those lines count when the faulty form applies a macro."""
    rs = [(x["line_lo"], x["line_hi"])]
    lines = x["src"].splitlines()
    if x["kind"] == "ambiguous-overload":
        m = re.match(r"(f\d+)\(", x["bad_form"])
        if m:
            rs += [(i, i) for i, l in enumerate(lines, 1) if re.search(r"\b%s\(" % m.group(1), l)]
        rs.append((len(lines), len(lines)))
    if re.search(r"\b(?:DBL|SQR)\(", x["bad_form"]):
        rs += [(i, i) for i, l in enumerate(lines[:40], 1) if MACRO_LINE.match(l)]
    return rs


def crashed(r):
    return r["rc"] < 0 or bool(CRASH.search(r["out"]))


INT_LIT = re.compile(r"\(7@(?:Integer|BI)\)|\bbi\(7\)")


def oracle_gap(x, cls):
    """Known incompleteness of the ORACLE (not of the compiler): libaldor's IntegerType exports
    `mod: (%, MachineInteger) -> MachineInteger` (sal_intcat.as:99) while Types.v gives `mod` the one
    signature (n, n) -> n.  A wrong-argument-type mutant that makes the left operand of a `mod` an
    Integer is therefore legal Aldor although the model calls it ill typed.  Reported to b-c01."""
    if (cls == "ill-typed-accepted" and x["kind"] == "wrong-argument-type"
            and " mod " in x["bad_form"] and INT_LIT.search(x["bad_form"]) is not None):
        return "Integer-mod-MachineInteger"
    if cls == "ill-typed-accepted" and x["kind"] == "ambiguous-overload":
        # second gap: the twin of a function whose result type has no `<<` (BoxA(T) / BoxB(T)) is NOT ambiguous in
        # `stdout << f(..)`: only the twin's result can be printed, Aldor's context type selects it.  The model
        # (Types.v: "the subset never uses the context type") calls every two-meaning call an error.
        head = x["bad_form"].split("\n")[0]
        sig = head[:head.rfind("): ") + 3] if "): " in head else None
        if sig:
            rets = [l[len(sig):] for l in x["src"].splitlines() if l.startswith(sig)]
            if any(r.startswith("Box") for r in rets):
                return "twin-of-unprintable-result-type"
    return None


def class_key(x, cls, r):
    """Findings that are one defect with many instances get one key (else: shape_key)."""
    if (cls == "error-position-outside-fault" and "failed to satisfy the condition that" in r["out"]
            and re.match(r"(?:if|while|for)\b", x["bad_form"]) and "@" in x["bad_form"]):
        return "C06 misplaced-error:embedded-satisfaction-message:toplevel-if-with-qualified-expr"
    if cls == "compiler-crash-without-positioned-error" and crash_site_overloaded_call_with_field_argument(x["bad_form"], x["src"]):
        return CRASH_FIELD_KEY
    return None


CRASH_FIELD_KEY = "C06 crash:argument-mismatch-in-call-of-overloaded-function-with-field-selection-argument"


def crash_site_overloaded_call_with_field_argument(bad_form, src):
    """Shape of one confirmed crash (ti_tdn.c:887, reached from terror.c:bputBadArgType0): a call that matches NO
    definition of an OVERLOADED function while another argument is an implicit application (`r.f0`, a record /
    union field: abImplicit).  The error reporter type-checks a copy of that argument once per rejected overload;
    the copies share the implicit `apply` node, the first pass leaves it with a unique type, the second reads it as
    a list of types: SIGSEGV before any message is printed.  One key for the family, whatever the form's text."""
    if not re.search(r"\.f\d", bad_form):
        return False
    for name in set(re.findall(r"\b(f\d+)\(", bad_form)):
        if len(re.findall(r"^%s\(" % name, src, re.M)) >= 2:
            return True
    return False


# ------------------------------------------------------------------ text-level forms (shrinking)

DEF_RE = re.compile(r"^(g\d+):|^(f\d+)\(")
NAME_RE = re.compile(r"\b([gf]\d+)\b")


def split_forms(src, header):
    """Top-level forms of a rendered program: a form starts at column 0, its continuation
    lines are indented or start with `}`.  None if the text does not have that shape."""
    if not src.startswith(header):
        return None
    forms = []
    for line in src[len(header):].splitlines(True):
        if forms and (line[:1] in (" ", "\t", "}") or not line.strip()):
            forms[-1] += line
        else:
            forms.append(line)
    return forms if header + "".join(forms) == src else None


def defined(form):
    m = DEF_RE.match(form)
    return (m.group(1) or m.group(2)) if m else None


def shrink_forms(header, forms, keep, still, budget_s=60):
    """Delete top-level forms (never those in `keep`) while `still(src, keep_line_ranges)`
    holds.  A form that defines a name may go only when no remaining form mentions that name,
    so every name the faulty form uses keeps exactly the meanings it had: the planted fault
    stays the same single violation (mutants only substitute literals and names)."""
    t0 = time.time()
    alive = list(range(len(forms)))
    changed = True
    while changed and time.time() - t0 < budget_s:
        changed = False
        for i in reversed(list(alive)):
            if i in keep or time.time() - t0 > budget_s:
                continue
            d = defined(forms[i])
            rest = [j for j in alive if j != i]
            if d is not None and any(d in NAME_RE.findall(forms[j]) for j in rest):
                continue
            if still(*assemble(header, forms, rest, keep)):
                alive = rest
                changed = True
    return assemble(header, forms, alive, keep)


def assemble(header, forms, alive, keep):
    src = header
    ranges = []
    line = header.count("\n")
    for j in alive:
        n = forms[j].count("\n")
        if j in keep:
            ranges.append((line + 1, line + n))
        line += n
        src += forms[j]
    return src, ranges


# ------------------------------------------------------------------ the two template kinds

T_SELF, T_MI, T_BOOL, T_STR = "%", "MI", "Boolean", "String"
T_ALL = [T_SELF, T_MI, T_BOOL, T_STR]
PRELUDE = '#include "aldor"\n#include "aldorio"\nimport from MachineInteger, Integer;\nMI ==> MachineInteger;\n'


def _sig(args, res):
    a = args[0] if len(args) == 1 else "(" + ", ".join(args) + ")"
    return "%s -> %s" % (a, res)


def _mi_of(name, t, self_as_rep=True):
    if t == T_SELF:
        return "(rep %s)" % name
    if t == T_MI:
        return name
    if t == T_BOOL:
        return "(if %s then (1@MI) else (0@MI))" % name
    return "(# %s)" % name


def _impl(op, args, res, c, self_t="%"):
    """A definition of `op` with that signature inside a domain whose Rep is MachineInteger."""
    ps = ["x%d" % i for i in range(len(args))]
    e = " + ".join([_mi_of(p, t) for p, t in zip(ps, args)] + ["(%d@MI)" % c])
    body = {T_SELF: "per(%s)" % e, T_MI: "(%s)" % e, T_BOOL: "((%s) > (0@MI))" % e, T_STR: '"s%d"' % c}[res]
    return "    %s(%s): %s == %s;\n" % (op, ", ".join("%s: %s" % (p, t) for p, t in zip(ps, args)), res, body)


def _rand_ops(rng, tag, n):
    ops = []
    for i in range(n):
        k = rng.choice([1, 1, 2, 2, 3])
        args = [rng.choice(T_ALL) for _ in range(k)]
        if T_SELF not in args:
            args[rng.randrange(k)] = T_SELF
        ops.append(("%s%d" % (tag, i), args, rng.choice(T_ALL)))
    return ops


def _lit(t, mk, rng):
    return {T_SELF: "%s((%d@MI))" % (mk, rng.randrange(0, 50)), T_MI: "(%d@MI)" % rng.randrange(0, 50),
            T_BOOL: rng.choice(["true", "false"]), T_STR: '"q%d"' % rng.randrange(9)}[t]


def _forms_to_case(kind, forms_good, forms_bad, fault_idx, params):
    def join(fs):
        return PRELUDE + "".join(fs)
    line = PRELUDE.count("\n") + sum(f.count("\n") for f in forms_bad[:fault_idx])
    return {"kind": kind, "good": join(forms_good), "bad": join(forms_bad),
            "ranges": [(line + 1, line + forms_bad[fault_idx].count("\n"))], "params": params}


def tmpl_missing_export(rng, n):
    """A domain whose category requires an export the domain does not provide.  Variants of the
    fault: definition dropped / defined under another name / defined with another parameter or
    result type.  Twin: the complete domain.  Options: inherited category, default bodies in the
    category (an operation with a default may legally be left out: part of the twin), a
    parametrised domain, shuffled definition order."""
    u = "%d" % n
    ops = _rand_ops(rng, "op" + u + "x", rng.randrange(2, 6))
    mk, val = "mk" + u, "val" + u
    req = [(mk, [T_MI], T_SELF), (val, [T_SELF], T_MI)] + ops
    inherit = rng.random() < 0.4
    n_base = rng.randrange(1, len(req)) if inherit else 0
    base_ops, own_ops = req[:n_base], req[n_base:]
    defaulted = [o for o in ops if o[2] != T_SELF and rng.random() < 0.3]
    param = rng.choice(["", "(T: PrimitiveType)", "(n: MI)"])
    consts = {o[0]: rng.randrange(0, 9) for o in req}

    def cat(name, parent, os_, dfl):
        s = "%s: Category == %swith {\n" % (name, (parent + " ") if parent else "")
        s += "".join("    %s: %s;\n" % (o[0], _sig(o[1], o[2])) for o in os_)
        if dfl:
            s += "    default {\n"
            for o in dfl:
                ps = ["x%d" % i for i in range(len(o[1]))]
                # a default may only use the category's own exports: val / mk
                e = " + ".join([("%s(%s)" % (val, p) if t == T_SELF else _mi_of(p, t)) for p, t in zip(ps, o[1])] + ["(%d@MI)" % consts[o[0]]])
                body = {T_MI: "(%s)" % e, T_BOOL: "((%s) > (0@MI))" % e, T_STR: '"d%d"' % consts[o[0]]}[o[2]]
                s += "        %s(%s): %s == %s;\n" % (o[0], ", ".join("%s: %s" % (p, t) for p, t in zip(ps, o[1])), o[2], body)
            s += "    }\n"
        return s + "};\n"

    forms = []
    kat, kbase, dom = "Kat" + u, "KatBase" + u, "Dom" + u
    if inherit:
        forms.append(cat(kbase, None, base_ops, [o for o in defaulted if o in base_ops]))
    # defaults that mention val/mk must live where those are visible: only default ops declared in a
    # category that (with its parent) exports both
    vis_own = {o[0] for o in req}
    forms.append(cat(kat, kbase if inherit else None, own_ops, [o for o in defaulted if o in own_ops]))
    if inherit:
        vis_base = {o[0] for o in base_ops}
        if not {mk, val} <= vis_base:
            # regenerate the base category without defaults (they could not see val)
            forms[0] = cat(kbase, None, base_ops, [])
            defaulted = [o for o in defaulted if o in own_ops]

    def domain(defs):
        order = list(defs)
        rng.shuffle(order)
        return "%s%s: %s == add {\n    Rep == MI;\n    import from Rep;\n%s};\n" % (dom, param, kat, "".join(order))

    impl = {o[0]: _impl(o[0], o[1], o[2], consts[o[0]]) for o in req}
    skip_default = {o[0] for o in defaulted if rng.random() < 0.5}     # legally left to the default
    good_defs = [impl[o[0]] for o in req if o[0] not in skip_default]
    victims = [o for o in req if o not in defaulted]
    v = rng.choice(victims)
    how = rng.choice(["dropped", "renamed", "retyped-parameter", "retyped-result"])
    if how == "dropped":
        repl = None
    elif how == "renamed":
        repl = _impl(v[0] + "z", v[1], v[2], consts[v[0]])
    elif how == "retyped-parameter":
        i = rng.randrange(len(v[1]))
        other = rng.choice([t for t in T_ALL if t != v[1][i]])
        repl = _impl(v[0], v[1][:i] + [other] + v[1][i + 1:], v[2], consts[v[0]])
    else:
        repl = _impl(v[0], v[1], rng.choice([t for t in T_ALL if t != v[2]]), consts[v[0]])
    st = rng.getstate()
    good_dom = domain(good_defs)
    rng.setstate(st)                       # same shuffle for the twin where possible
    bad_dom = domain([d for d in good_defs if d != impl[v[0]]] + ([repl] if repl else []))
    inst = dom + {"": "", "(T: PrimitiveType)": "(Integer)", "(n: MI)": "((3@MI))"}[param]
    use_op = rng.choice(req)
    call = "%s(%s)" % (use_op[0], ", ".join(_lit(t, mk, rng) for t in use_op[1]))
    shown = "%s(%s)" % (val, call) if use_op[2] == T_SELF else call
    tail = ["import from %s;\n" % inst, "stdout << %s << newline;\n" % shown]
    k = len(forms)
    return _forms_to_case("missing-category-export", forms + [good_dom] + tail, forms + [bad_dom] + tail, k,
                          {"how": how, "victim": v[0], "inherit": inherit, "param": param,
                           "defaults": len(defaulted), "ops": len(req)})


def tmpl_param_op(rng, n):
    """A parametrised package that applies to its parameter an operation the parameter's declared
    category does not export (it is exported by an extension, by a sibling category, or by no
    category at all).  Twin: the parameter declared with the category that does export it."""
    u = "%d" % n
    opsA = _rand_ops(rng, "fa" + u + "x", rng.randrange(1, 4))
    opsB = _rand_ops(rng, "gb" + u + "x", rng.randrange(1, 4))
    mk, val = "mk" + u, "val" + u
    kA, kB, pkg, dom = "KatA" + u, "KatB" + u, "Pkg" + u, "DomB" + u
    rel = rng.choice(["extension", "sibling"])
    anon = rng.random() < 0.3                      # T: with { ... } instead of a named category
    baseA = [(val, [T_SELF], T_MI)] + opsA
    consts = {o[0]: rng.randrange(0, 9) for o in baseA + opsB}
    consts[mk] = 0

    def withbody(os_):
        return "".join("    %s: %s;\n" % (o[0], _sig(o[1], o[2])) for o in os_)
    forms = ["%s: Category == with {\n%s};\n" % (kA, withbody(baseA))]
    if rel == "extension":
        forms.append("%s: Category == %s with {\n%s};\n" % (kB, kA, withbody(opsB)))
        full = kB
    else:
        forms.append("%s: Category == with {\n%s};\n" % (kB, withbody(opsB)))
        full = "Join(%s, %s)" % (kA, kB)
    # an MI-valued expression over x: T that uses one operation of B (the planted use) and some of A
    g = rng.choice(opsB)

    def call(o, depth):
        args = []
        for t in o[1]:
            if t == T_SELF:
                inner = [p for p in opsA if p[2] == T_SELF]
                args.append(call(rng.choice(inner), depth - 1) if (inner and depth > 0 and rng.random() < 0.5) else "x")
            else:
                args.append(_lit(t, mk, rng))
        return "%s(%s)" % (o[0], ", ".join(args))

    def to_mi(o, e):
        return {T_SELF: "%s(%s)" % (val, e), T_MI: e, T_BOOL: "(if %s then (1@MI) else (0@MI))" % e, T_STR: "(# %s)" % e}[o[2]]
    a = rng.choice(baseA)
    terms = [to_mi(g, call(g, 2)), to_mi(a, call(a, 2))]
    rng.shuffle(terms)
    nloc = rng.randrange(0, 3)
    body = "".join("        l%d: MI := (%d@MI);\n" % (i, rng.randrange(9)) for i in range(nloc))
    hexpr = " + ".join(terms + ["l%d" % i for i in range(nloc)])

    def package(tcat):
        decl = ("with {\n%s    }" % "".join("    " + l + "\n" for l in withbody(baseA if tcat == kA else baseA + opsB).splitlines())) \
            if anon else tcat
        return ("%s(T: %s): with {\n    h%s: T -> MI;\n} == add {\n    h%s(x: T): MI == {\n%s        %s\n    }\n};\n"
                % (pkg, decl, u, u, body, hexpr))
    impl = "".join(_impl(o[0], o[1], o[2], consts[o[0]]) for o in [(mk, [T_MI], T_SELF)] + baseA + opsB)
    forms_tail = ["%s: %s with {\n    %s: MI -> %%;\n} == add {\n    Rep == MI;\n    import from Rep;\n%s};\n" % (dom, full, mk, impl),
                  "import from %s, %s(%s);\n" % (dom, pkg, dom),
                  "stdout << h%s(%s((%d@MI))) << newline;\n" % (u, mk, rng.randrange(0, 50))]
    k = len(forms)
    return _forms_to_case("operation-not-in-parameter-category", forms + [package(full)] + forms_tail,
                          forms + [package(kA)] + forms_tail, k,
                          {"relation": rel, "anonymous": anon, "opsA": len(opsA), "opsB": len(opsB), "used": g[0]})


# ------------------------------------------------------------------ shape-systematic templates
# Every modelled catalogue fault planted in EVERY position class of a small grammar (not sampled: the grid is
# enumerated), each with a well-typed twin that must compile.  The mutant catalogue of the oracle only plants a
# fault where the generator happens to have put an eligible node; this grid does not depend on the generator.

S_TY = {
    "MI": {"lit": ["(3@MI)", "(8@MI)"], "idf": "idm", "glob": ["gm", "hm"]},
    "BI": {"lit": ["(5@BI)", "(9@BI)"], "idf": "idi", "glob": ["gi", "hi"]},
    "Boolean": {"lit": ["true", "false"], "idf": "idb", "glob": ["gb", "hb"]},
    "String": {"lit": ['"s"', '"t"'], "idf": "ids", "glob": ["gs", "hs"]},
}
S_HELPERS = ["BI ==> Integer;\n"] + \
    ["%s: %s := %s;\n" % (g, t, d["lit"][i]) for t, d in S_TY.items() for i, g in enumerate(d["glob"])] + \
    ["%s(x: %s): %s == x;\n" % (d["idf"], t, t) for t, d in S_TY.items()]
S_PT = ["MI", "String", "Boolean", "BI"]                     # parameter types of k1 .. k4
S_KDEFS = ["k%d(%s): MI == (7@MI);\n" % (n, ", ".join("p%d: %s" % (i + 1, S_PT[i]) for i in range(n))) for n in range(1, 5)]
S_FORMS = ["identifier", "literal", "call", "if-expression"]


def s_expr(t, form, a=None, b=None, c="gb"):
    """An expression of type t in one of the four argument forms (a, b: identifiers of type t)."""
    d = S_TY[t]
    a = a or d["glob"][0]
    b = b or d["glob"][1]
    return {"identifier": a, "literal": d["lit"][0], "call": "%s(%s)" % (d["idf"], a),
            "if-expression": "(if %s then %s else %s)" % (c, a, b)}[form]


def s_case(kind, shape, pre, good_form, bad_form, tail, params, extra_range_forms=()):
    forms_g = S_HELPERS + pre + [good_form] + tail
    forms_b = S_HELPERS + pre + [bad_form] + tail
    k = len(S_HELPERS) + len(pre)
    c = _forms_to_case(kind, forms_g, forms_b, k, dict(params, shape=shape))
    line = PRELUDE.count("\n")
    for i, f in enumerate(forms_b):
        n = f.count("\n")
        if i in extra_range_forms:
            c["ranges"].append((line + 1, line + n))
        line += n
    return c


def s_return_bodies(w):
    d = S_TY[w]
    l1, l2, f = d["lit"][0], d["lit"][1], d["idf"]
    return {
        "identifier": "a", "literal": l1, "call": "%s(a)" % f,
        "if:identifier/identifier": "if c then a else b",
        "if:literal/literal": "if c then %s else %s" % (l1, l2),
        "if:call/call": "if c then %s(a) else %s(b)" % (f, f),
        "if:identifier/literal": "if c then a else %s" % l2,
        "if:identifier/call": "if c then a else %s(b)" % f,
        "if:parenthesised": "(if c then a else b)",
        "if:braced": "{\n    if c then a else b\n}",
        "sequence-with-exit": "{\n    c => a;\n    b\n}",
        "sequence-with-exit:literal": "{\n    c => %s;\n    b\n}" % l1,
        "nested-if": "if c then (if c then a else b) else b",
        "if-else-if": "if c then a else if c then b else a",
        "loop-then-value": "{\n    for i: MI in (1@MI)..(2@MI) repeat {\n    };\n    a\n}",
        "local-then-value": "{\n    l: %s := a;\n    l\n}" % w,
        "return-then-value": "{\n    if c then return a;\n    b\n}",
    }


def shape_cases():
    cases = []
    # ---- wrong return type: value type w, declared result r
    for w, r in [("MI", "String"), ("String", "MI"), ("MI", "Boolean"), ("Boolean", "String"), ("BI", "MI"), ("MI", "BI")]:
        a0 = S_TY[w]["glob"][0]
        a1 = S_TY[w]["glob"][1]
        for shape, body in s_return_bodies(w).items():
            def fn(res):
                return "h(a: %s, b: %s, c: Boolean): %s == %s%s\n" % (w, w, res, body, "" if body.endswith("}") else ";")
            cases.append(s_case("shape:wrong-return-type", shape, [], fn(w), fn(r),
                                ["stdout << h(%s, %s, gb) << newline;\n" % (a0, a1)], {"value": w, "declared": r}))
    # ---- wrong argument type / wrong arity: every position of k1..k4, every argument form, two contexts
    def call_forms(n, args, ctx):
        call = "k%d(%s)" % (n, ", ".join(args))
        if ctx == "top-level":
            return "stdout << %s << newline;\n" % call
        return "w(): MI == %s;\n" % call
    for ctx in ("top-level", "function-body"):
        for n in range(1, 5):
            right = [S_TY[S_PT[i]]["glob"][0] for i in range(n)]
            for j in range(n):
                for form in S_FORMS:
                    for wt in [t for t in S_TY if t != S_PT[j]][:2]:
                        good = right[:j] + [s_expr(S_PT[j], form)] + right[j + 1:]
                        bad = right[:j] + [s_expr(wt, form)] + right[j + 1:]
                        cases.append(s_case("shape:wrong-argument-type", "%s/position-%d-of-%d/%s" % (ctx, j + 1, n, form),
                                            S_KDEFS, call_forms(n, good, ctx), call_forms(n, bad, ctx), [],
                                            {"expected": S_PT[j], "given": wt}))
                # arity: argument j dropped
                cases.append(s_case("shape:wrong-arity", "%s/dropped-%d-of-%d" % (ctx, j + 1, n), S_KDEFS,
                                    call_forms(n, right, ctx), call_forms(n, right[:j] + right[j + 1:], ctx), [], {}))
            # arity: one argument too many, at every position, in every form
            for j in range(n + 1):
                for form in S_FORMS:
                    cases.append(s_case("shape:wrong-arity", "%s/extra-at-%d-of-%d/%s" % (ctx, j + 1, n, form), S_KDEFS,
                                        call_forms(n, right, ctx),
                                        call_forms(n, right[:j] + [s_expr("MI", form)] + right[j:], ctx), [], {}))
    # ---- a mismatching argument in a call of an OVERLOADED function while another argument is a field selection
    ov = ["import from Record(f0: BI, f1: MI);\n", "rr: Record(f0: BI, f1: MI) := [(5@BI), (3@MI)];\n",
          "ko(p0: BI, p1: MI): BI == p0;\n", "ko(p0: BI, p1: String): MI == (1@MI);\n"]
    for shape, a1 in (("field-of-variable", "rr.f0"), ("field-of-record-literal", "(([(5@BI), (3@MI)]@Record(f0: BI, f1: MI)).f0)")):
        c = s_case("shape:wrong-argument-type", "overloaded-callee/%s-as-other-argument" % shape, ov,
                   "stdout << ko(%s, (7@MI)) << newline;\n" % a1, "stdout << ko(%s, (7@BI)) << newline;\n" % a1, [],
                   {"expected": "MI or String", "given": "BI"})
        c["key_override"] = CRASH_FIELD_KEY
        c["expect_out"] = "5\n"
        cases.append(c)
    # ---- undefined name: a variable (zz9) or a function (zf9) in every position class
    und = {
        "function-body:value": "u(): MI == %s;\n",
        "function-body:local-initialiser": "u(): MI == {\n    l: MI := %s;\n    l\n}\n",
        "function-body:loop-body": "u(): MI == {\n    l: MI := gm;\n    for i: MI in gm..hm repeat {\n        l := %s;\n    };\n    l\n}\n",
        "function-body:if-condition": "u(): MI == if (%s > gm) then gm else hm;\n",
        "function-body:exit-condition": "u(): MI == {\n    (%s > gm) => gm;\n    hm\n}\n",
        "top-level:print": "stdout << %s << newline;\n",
        "top-level:initialiser": "v9: MI := %s;\n",
        "top-level:loop-body": "for i: MI in gm..hm repeat {\n    hm := %s;\n};\n",
        "top-level:while-condition": "while (%s > hm) repeat {\n    hm := hm + gm;\n};\n",
        "top-level:if-condition": "if (%s > gm) then {\n    stdout << gm << newline;\n};\n",
        "top-level:call-argument": "stdout << k2(%s, gs) << newline;\n",
        "nested-expression": "stdout << idm((if gb then (gm + (%s * hm)) else hm)) << newline;\n",
        "nested-if-condition": "stdout << (if (if (%s > gm) then gb else hb) then gm else hm) << newline;\n",
    }
    for shape, tpl in und.items():
        for what, bad, good in (("variable", "zz9", "gm"), ("function", "zf9(gm)", "idm(gm)")):
            cases.append(s_case("shape:undefined-name", shape + "/" + what, S_KDEFS, tpl % good, tpl % bad, [], {}))
    # ---- assignment to a constant (twin: the same name declared as a variable)
    for t, d in S_TY.items():
        v = d["glob"][0]
        asg = {
            "top-level": "kc := %s;\n" % d["lit"][1],
            "top-level:loop-body": "for i: MI in gm..hm repeat {\n    kc := %s;\n};\n" % v,
            "top-level:if-body": "if gb then {\n    kc := %s;\n};\n" % v,
            "function-body:free": "u(): MI == {\n    free kc;\n    kc := %s;\n    gm\n}\n" % v,
            "function-body:loop-body:free": "u(): MI == {\n    free kc;\n    for i: MI in gm..hm repeat {\n        kc := %s;\n    };\n    gm\n}\n" % v,
        }
        for shape, form in asg.items():
            good_pre = ["kc: %s := %s;\n" % (t, d["lit"][0])]
            bad_pre = ["kc: %s == %s;\n" % (t, d["lit"][0])]
            forms_g = S_HELPERS + good_pre + [form]
            forms_b = S_HELPERS + bad_pre + [form]
            c = _forms_to_case("shape:assign-to-constant", forms_g, forms_b, len(S_HELPERS) + 1, {"type": t, "shape": shape})
            line = PRELUDE.count("\n") + sum(f.count("\n") for f in S_HELPERS)
            c["ranges"].append((line + 1, line + 1))          # the constant's definition: the pair is the fault
            cases.append(c)
    return cases


# ------------------------------------------------------------------ default values and keyword arguments (enumerated)
# Functions with 0, 1 or 2 trailing parameters that have DEFAULT values, called with positional, keyword (`b == 10`)
# and omitted arguments.  Neither the oracle's mutants nor shape_cases know these call forms.  Every ill-typed call
# has a well-typed twin whose value is known; the twin must compile AND print that value under -ginterp.
D_DEFS = {
    "plain": ["fd0(a: MI, b: MI): MI == a + b;\n",
              "fd1(a: MI, b: MI == 2): MI == a + b;\n",
              "fd2(a: MI, b: MI == 2, c: MI == 30): MI == a + b + c;\n",
              'fds(a: MI, s: String == "xy"): MI == a + (# s);\n'],
    "domain-export": ["DomD: with {\n    fd0: (a: MI, b: MI) -> MI;\n    fd1: (a: MI, b: MI == 2) -> MI;\n"
                      "    fd2: (a: MI, b: MI == 2, c: MI == 30) -> MI;\n    fds: (a: MI, s: String == \"xy\") -> MI;\n} == add {\n"
                      "    fd0(a: MI, b: MI): MI == a + b;\n    fd1(a: MI, b: MI == 2): MI == a + b;\n"
                      "    fd2(a: MI, b: MI == 2, c: MI == 30): MI == a + b + c;\n"
                      '    fds(a: MI, s: String == "xy"): MI == a + (# s);\n};\n', "import from DomD;\n"],
}
# (fault class, function, ill-typed call, well-typed twin call, value of the twin)
D_CALLS = [
    # --- unknown keyword, with and without defaulted parameters present
    ("unknown-keyword/no-default", "fd0", "fd0(1, bb == 2)", "fd0(1, b == 2)", 3),
    ("unknown-keyword/no-default", "fd0", "fd0(aa == 1, b == 2)", "fd0(a == 1, b == 2)", 3),
    ("unknown-keyword/1-default", "fd1", "fd1(1, bb == 10)", "fd1(1, b == 10)", 11),
    ("unknown-keyword/1-default", "fd1", "fd1(aa == 1)", "fd1(a == 1)", 3),
    ("unknown-keyword/2-defaults", "fd2", "fd2(1, bb == 10)", "fd2(1, b == 10)", 41),
    ("unknown-keyword/2-defaults", "fd2", "fd2(1, 5, cc == 7)", "fd2(1, 5, c == 7)", 13),
    ("unknown-keyword/2-defaults", "fd2", "fd2(1, b == 5, cc == 7)", "fd2(1, b == 5, c == 7)", 13),
    ("unknown-keyword/2-defaults", "fd2", "fd2(1, cc == 7, b == 5)", "fd2(1, c == 7, b == 5)", 13),
    # --- keyword given twice
    ("keyword-twice", "fd1", "fd1(1, b == 5, b == 6)", "fd1(1, b == 5)", 6),
    ("keyword-twice", "fd2", "fd2(1, c == 5, c == 6)", "fd2(1, c == 5)", 8),
    ("keyword-twice", "fd2", "fd2(1, b == 5, c == 6, b == 7)", "fd2(1, b == 5, c == 6)", 12),
    ("keyword-twice", "fd0", "fd0(1, b == 2, b == 3)", "fd0(1, b == 2)", 3),
    # --- keyword naming a parameter that is also given positionally
    ("keyword-and-positional", "fd1", "fd1(1, a == 4)", "fd1(1, b == 4)", 5),
    ("keyword-and-positional", "fd1", "fd1(1, 5, b == 6)", "fd1(1, 5)", 6),
    ("keyword-and-positional", "fd2", "fd2(1, 5, b == 6)", "fd2(1, 5, c == 6)", 12),
    ("keyword-and-positional", "fd2", "fd2(1, 5, 7, c == 6)", "fd2(1, 5, 7)", 13),
    ("keyword-and-positional", "fd0", "fd0(1, 2, b == 3)", "fd0(1, 2)", 3),
    ("keyword-and-positional", "fd0", "fd0(1, a == 2)", "fd0(1, b == 2)", 3),
    # --- too many positional arguments when k parameters are defaulted
    ("too-many-positional/1-default", "fd1", "fd1(1, 2, 3)", "fd1(1, 2)", 3),
    ("too-many-positional/1-default", "fd1", "fd1(1, 2, 3, 4)", "fd1(1, 2)", 3),
    ("too-many-positional/2-defaults", "fd2", "fd2(1, 2, 3, 4)", "fd2(1, 2, 3)", 6),
    ("too-many-positional/2-defaults", "fd2", "fd2(1, 2, 3, 4, 5)", "fd2(1, 2, 3)", 6),
    ("too-many-positional/no-default", "fd0", "fd0(1, 2, 3)", "fd0(1, 2)", 3),
    ("too-many-positional/with-keyword", "fd2", "fd2(1, 2, 3, c == 4)", "fd2(1, 2, c == 4)", 7),
    # --- keyword argument of the wrong type
    ("keyword-of-wrong-type", "fd1", 'fd1(1, b == "s")', "fd1(1, b == 9)", 10),
    ("keyword-of-wrong-type", "fd1", "fd1(1, b == true)", "fd1(1, b == 9)", 10),
    ("keyword-of-wrong-type", "fd2", 'fd2(1, c == "s")', "fd2(1, c == 9)", 12),
    ("keyword-of-wrong-type", "fd2", "fd2(1, 5, c == gs)", "fd2(1, 5, c == gm)", 9),
    ("keyword-of-wrong-type", "fds", "fds(1, s == 4)", 'fds(1, s == "abcd")', 5),
    ("keyword-of-wrong-type", "fd0", 'fd0(1, b == "s")', "fd0(1, b == 2)", 3),
    ("positional-of-wrong-type/defaulted-position", "fd1", 'fd1(1, "s")', "fd1(1, 9)", 10),
    ("positional-of-wrong-type/defaulted-position", "fds", "fds(1, 4)", 'fds(1, "abc")', 4),
    # --- a non-defaulted argument missing while a defaulted one is given by keyword
    ("missing-required-argument", "fd1", "fd1(b == 10)", "fd1(1, b == 10)", 11),
    ("missing-required-argument", "fd2", "fd2(b == 5, c == 7)", "fd2(1, b == 5, c == 7)", 13),
    ("missing-required-argument", "fd2", "fd2(c == 7)", "fd2(1, c == 7)", 10),
    ("missing-required-argument", "fd1", "fd1()", "fd1(1)", 3),
    ("missing-required-argument", "fd0", "fd0(b == 2)", "fd0(1, b == 2)", 3),
]
# well-typed call forms that are nobody's twin above: positional / keyword / omitted, in every order
D_GOOD = [("fd1(1)", 3), ("fd1(1, 5)", 6), ("fd1(b == 3, a == 4)", 7), ("fd2(1)", 33), ("fd2(1, 5)", 36),
          ("fd2(c == 7, a == 1)", 10), ("fd2(b == 1, a == 1, c == 1)", 3), ("fd0(b == 2, a == 1)", 3),
          ("fds(1)", 3), ("fds(s == \"a\", a == 1)", 2), ("fd1(gm, b == hm)", 11), ("fd1(idm(gm), b == (if gb then gm else hm))", 6)]


def default_cases():
    cases = []
    for flavour, defs in D_DEFS.items():
        for ctx in ("top-level", "function-body"):
            def forms(call):
                if ctx == "top-level":
                    return ["stdout << %s << newline;\n" % call]
                return ["w(): MI == %s;\n" % call, "stdout << w() << newline;\n"]
            for cls, fn, bad, good, val in D_CALLS:
                g, b = forms(good), forms(bad)
                c = s_case("default:" + cls.split("/")[0], "%s/%s/%s" % (flavour, ctx, cls), defs, g[0], b[0], g[1:],
                           {"call": bad, "twin": good})
                c["expect_out"] = "%d\n" % val
                cases.append(c)
            for good, val in D_GOOD:
                g = forms(good)
                c = s_case("default:well-typed-only", "%s/%s" % (flavour, ctx), defs, g[0], g[0], g[1:], {"call": good})
                c["expect_out"] = "%d\n" % val
                c["bad"] = None
                cases.append(c)
    return cases


TEMPLATES = {"missing-category-export": tmpl_missing_export, "operation-not-in-parameter-category": tmpl_param_op}


def template_cases(rng, n_each):
    cases = []
    for name, fn in TEMPLATES.items():
        for i in range(n_each):
            cases.append(fn(rng, i))
    return cases


# ------------------------------------------------------------------ reporting helpers

def _obs(r):
    return {"rc": r["rc"], "files_left": r["files"], "out": r["out"][:3000]}


def _replay(mode, src, ranges, r, extra):
    o = {"how_to_replay": "./check C06 --replay <this file>   (compiles `src` with -Fao -Ffm -Fc using the compiler built "
                          "from the current tree; mode=%s)" % mode,
         "mode": mode, "src": src, "fault_line_ranges": ranges, "observed": _obs(r)}
    o.update(extra)
    return o


def shape_key(x_kind, cls, bad_form):
    """Stable key of a finding: fault kind, violation class and the syntactic shape of the faulty
    form (identifiers and literals abstracted)."""
    s = re.sub(r'"(?:[^"_]|_.)*"', "S", bad_form)
    s = re.sub(r"\b\d+\b", "N", s)
    s = re.sub(r"\b([gfpl])\d+\b", r"\1", s)
    s = re.sub(r"\s+", " ", s).strip()
    return "C06 %s %s %s" % (x_kind, cls, s[:160])


# ------------------------------------------------------------------ the run

def run(rep, tier):
    t0 = time.time()
    C.proof_stage(rep, ID, ["Props/Properties_C06.vo", "Mini/Extract.vo"], "Props/Properties_C06.v", None, defer=True)
    aldor = C.build_compiler()
    mini.build(rebuild_coq=False)
    base = C.scratch("c06")
    t_build = time.time() - t0
    quick = tier == "quick"
    rng = C.rng("c06")
    viol = []          # (what, replay_obj, key)

    # ---- 0. corpus (minimised past failures) first
    n_corpus = 0
    cdir = os.path.join(C.VERIF, "corpus", ID)
    for fn in sorted(os.listdir(cdir)) if os.path.isdir(cdir) else []:
        if fn.endswith(".json"):
            n_corpus += 1
            o = json.load(open(os.path.join(cdir, fn)))
            cls, r = _judge_obj(aldor, o, base)
            if cls:
                viol.append(("corpus %s: %s" % (fn, cls), _replay(o["mode"], o["src"], o.get("fault_line_ranges"), r,
                                                                   {"corpus": fn}), o.get("key")))

    # ---- 1. templates: the two catalogue entries without a Coq model
    n_t = 40 if quick else 400
    cases = template_cases(C.rng("c06-templates"), n_t) + shape_cases() + default_cases()

    def run_case(c):
        rg = compile_src(aldor, c["good"], base)
        if c.get("expect_out") is not None and judge_accept(rg) is None:
            d = "%s/i%d" % (base, next(_uniq))
            try:
                ri = mini.run_interp(aldor, c["good"], d)
            finally:
                shutil.rmtree(d, ignore_errors=True)
            if ri["status"] != "ok" or ri["out"] != c["expect_out"]:
                rg = dict(rg, wrong_value="-ginterp printed %r (status %s), expected %r" % (ri["out"][:200], ri["status"], c["expect_out"]))
        return c, rg, (compile_src(aldor, c["bad"], base) if c.get("bad") else None)
    t_stats = collections.Counter()
    shape_classes = set()
    with concurrent.futures.ThreadPoolExecutor(C.NCPU) as ex:
        for c, rg, rb in ex.map(run_case, cases):
            cg = judge_accept(rg) or ("twin-prints-wrong-value" if rg.get("wrong_value") else None)
            cb = judge_reject(rb, c["ranges"]) if rb is not None else None
            if rg.get("wrong_value"):
                rg = dict(rg, out=rg["out"] + "\n" + rg["wrong_value"])
            t_stats[(c["kind"], "twin-accepted" if cg is None else "twin:" + cg)] += 1
            if rb is not None:
                t_stats[(c["kind"], "fault-rejected" if cb is None else "fault:" + cb)] += 1
            if c["kind"].startswith(("shape:", "default:")):
                shape_classes.add((c["kind"], c["params"].get("shape", "").split("/")[0]))
                c = dict(c, kind=c["kind"] + " " + c["params"].get("shape", ""))
            if cg:
                viol.append(("template %s: well-typed twin: %s" % (c["kind"], cg),
                             _replay("accept", c["good"], None, rg, {"template": c["kind"], "params": c["params"]}),
                             "C06 template %s twin %s %s" % (c["kind"], cg, json.dumps(c["params"], sort_keys=True))))
            if cb:
                viol.append(("template %s: planted fault: %s" % (c["kind"], cb),
                             _replay("reject", c["bad"], c["ranges"], rb, {"template": c["kind"], "params": c["params"]}),
                             (c.get("key_override") if cb == "compiler-crash-without-positioned-error" and c.get("key_override")
                              else "C06 template %s fault %s %s" % (c["kind"], cb, json.dumps(c["params"], sort_keys=True)))))
    t_templates = time.time() - t0 - t_build

    # ---- 2. generated family and its mutants
    n_prog = 80 if quick else 100000
    per_kind = 6 if quick else 100000
    budget = 150 if quick else 20 * 60
    sizes = SIZES_QUICK if quick else SIZES_THOROUGH
    t_start = time.time()
    st = collections.Counter()
    kinds = collections.Counter()
    sites_cand, sites_elig, sites_run = collections.Counter(), collections.Counter(), collections.Counter()
    size_hist = collections.Counter()
    feat = collections.Counter()
    samples = []
    progs_done = 0
    chunk = 16 if quick else 32
    failures = []      # (cls, prog m, mutant x or None, r)
    crash_samples = []
    while progs_done < n_prog and time.time() - t_start < budget:
        jobs = [(rng.randrange(1, 2 ** 40), rng.choice(sizes)) for _ in range(min(chunk, n_prog - progs_done))]
        ms = mini.batch(["mutants %d %d %d" % (s, z, per_kind) for s, z in jobs])
        work = []
        for m in ms:
            work.append((m, None))
            work += [(m, x) for x in m["mutants"]]
            size_hist[m["size"]] += 1
            feat.update(m["features"])
            for k, v in m["sites"].items():
                sites_cand[k] += v["candidates"]
                sites_elig[k] += v["eligible"]
            if len(samples) < 12:
                samples.append({"seed": m["seed"], "size": m["size"], "nodes": m["nodes"], "mutants_run": len(m["mutants"]),
                                "eligible_sites": {k: v["eligible"] for k, v in m["sites"].items()}})
            if m.get("typed") is not True:
                viol.append(("oracle: generated base program is not well typed by the model", {"seed": m["seed"], "size": m["size"]}, None))

        def one(w):
            m, x = w
            return w, compile_src(aldor, (m if x is None else x)["src"], base)
        with concurrent.futures.ThreadPoolExecutor(C.NCPU) as ex:
            for (m, x), r in ex.map(one, work):
                if x is None:
                    cls = judge_accept(r)
                    st["base-accepted" if cls is None else "base:" + cls] += 1
                else:
                    cls = judge_reject(r, mutant_ranges(x))
                    sites_run[x["kind"]] += 1
                    if cls is None and crashed(r):
                        st["mutant-rejected-then-compiler-crashed"] += 1
                        if len(crash_samples) < 3:
                            crash_samples.append({"seed": m["seed"], "size": m["size"], "kind": x["kind"], "site": x["site"],
                                                  "bad_form": x["bad_form"], "out": r["out"][:600]})
                    if cls and oracle_gap(x, cls):
                        st["oracle-gap:" + oracle_gap(x, cls)] += 1
                        cls = None
                    st["mutant-rejected" if cls is None else "mutant:" + cls] += 1
                    kinds[(x["kind"], "ok" if cls is None else cls)] += 1
                if cls:
                    failures.append((cls, m, x, r))
        progs_done += len(ms)
    t_run = time.time() - t_start

    # ---- 3. shrink (first few) and report
    fcache = {}

    def header_of(m):
        k = (m["seed"], m["size"])
        if k not in fcache:
            fcache[k] = mini.forms([m["seed"]], m["size"])[0]
        return fcache[k]["header"]
    shrunk = 0
    seen_keys = set()
    for cls, m, x, r in failures:
        if x is None:
            # a well-typed program the compiler does not accept: model-level shrinking (tool)
            small, path = m, []
            if shrunk < 3:
                shrunk += 1

                def still_fails(q, cls=cls):
                    return judge_accept(compile_src(aldor, q["src"], base)) == cls
                path, small = mini.shrink(m["seed"], m["size"], still_fails, budget_s=40 if quick else 300)
                r2 = compile_src(aldor, small["src"], base)
                if judge_accept(r2) != cls:
                    small, path, r2 = m, [], r
                r = r2
            viol.append(("well-typed generated program (seed %d size %d, %s nodes) is not accepted: %s"
                         % (m["seed"], m["size"], small.get("nodes"), cls),
                         _replay("accept", small["src"], None, r, {"seed": m["seed"], "size": m["size"], "shrink_path": path}),
                         shape_key("base", cls, ERR_ANY.split(r["out"])[-1][:120] if ERR_ANY.search(r["out"]) else "")))
            continue
        src, ranges = x["src"], mutant_ranges(x)
        key = class_key(x, cls, r) or shape_key(x["kind"], cls, x["bad_form"])
        if key in seen_keys and len(viol) > 40:
            continue
        if shrunk < 3 and key not in seen_keys:
            shrunk += 1
            forms = split_forms(src, header_of(m))
            if forms and x["fault_form"] < len(forms) and forms[x["fault_form"]] == x["bad_form"]:
                keep = {x["fault_form"]}
                if x["kind"] == "ambiguous-overload":
                    keep |= {len(forms) - 1}

                def still(s, rs, cls=cls):
                    return judge_reject(compile_src(aldor, s, base), rs) == cls
                src2, ranges2 = shrink_forms(header_of(m), forms, keep, still, budget_s=40 if quick else 300)
                r2 = compile_src(aldor, src2, base)
                if judge_reject(r2, ranges2) == cls:
                    src, ranges, r = src2, ranges2, r2
        seen_keys.add(key)
        viol.append(("mutant %s at site %d of generated program (seed %d size %d): %s"
                     % (x["kind"], x["site"], m["seed"], m["size"], cls),
                     _replay("reject", src, ranges, r, {"seed": m["seed"], "size": m["size"], "kind": x["kind"],
                                                         "site": x["site"], "bad_form": x["bad_form"]}), key))
    for what, obj, key in viol:
        rep.violation(what, obj, key=key)
    if crash_samples:
        rep.notes.append("compiler crashed AFTER rejecting a mutant as the property demands (positioned error, exit != 0, no "
                         "output): not a C06 violation, belongs to C07; samples: %s" % json.dumps(crash_samples)[:1500])

    # ---- 4. evidence
    n_mut = sum(sites_run.values())
    rep.add_cov(evaluations=progs_done + n_mut + 2 * len(cases) + n_corpus,
                distinct_nontrivial=n_mut + len(cases),
                traces_validated_against_impl=st["base-accepted"] + st["mutant-rejected"]
                + sum(v for (k, w), v in t_stats.items() if w in ("twin-accepted", "fault-rejected")),
                rule="base program: exit 0, no (Error), p.ao p.fm p.c written; mutant / faulty template: exit != 0, >= 1 (Error) "
                     "with [Lx Cy] inside the line range of the planted fault, no .ao/.c/.fm left",
                samples=samples,
                input_distribution={
                    "base_programs": progs_done, "mutants_run": n_mut, "mutants_per_kind_cap": per_kind,
                    "requested_size": dict(sorted(size_hist.items())),
                    "candidate_sites": dict(sites_cand), "eligible_sites": dict(sites_elig), "sites_run": dict(sites_run),
                    "outcomes": dict(st), "outcomes_per_kind": {"%s/%s" % k: v for k, v in sorted(kinds.items())},
                    "templates": {"%s/%s" % k: v for k, v in sorted(t_stats.items())},
                    "default_and_keyword_grid": {"cases": sum(1 for c in cases if c["kind"].startswith("default:")),
                                                 "twins_run_under_ginterp": sum(1 for c in cases if c.get("expect_out") is not None)},
                    "shape_grid": {"cases": sum(1 for c in cases if c["kind"].startswith("shape:")),
                                   "position_classes": sorted("%s %s" % k for k in shape_classes)},
                    "feature_mix(programs containing)": dict(feat.most_common(40)),
                    "corpus_entries": n_corpus},
                timings_s={"proof+build": round(t_build, 1), "templates": round(t_templates, 1), "generated": round(t_run, 1)})
    for k in ("wrong-argument-type", "wrong-arity", "undefined-name", "ambiguous-overload", "assign-to-constant", "wrong-return-type"):
        if progs_done >= 20 and sites_run[k] == 0:
            rep.violation("no mutant of kind %s was run: the sampled family offers no eligible site" % k,
                          {"sites": dict(sites_elig)}, no_input=True)
    rep.assume(
        "Aldor's type checker (tfsat.c, tform.c, ti_bup.c, ti_tdn.c, ti_sef.c, tposs.c, scobind.c) is NOT modelled: agreement "
        "between the oracle's verdict and the compiler's is sampled by these runs, not proved",
        "mutant_ill_typed holds because `eligible` runs the oracle's checker on the mutant; the mutations substitute literals "
        "and names only (Mut.v), which is what makes the oracle's reason for rejection one of Aldor's rules",
        "the two template kinds (missing category export, operation not in the parameter's category) have no Coq model: "
        "hand-written parametrised templates with a well-typed twin, validated against the compiler only",
        "the shape grid (shape_cases: wrong return type x 17 body shapes, wrong argument type / arity x every position of 1..4 "
        "x 4 argument forms x 2 contexts, undefined name x 13 positions, assignment to a constant x 5 positions) is enumerated "
        "in python with a well-typed twin per case; it has no Coq model either and does not depend on the generator",
        "default_cases: functions / exported domain operations with 0-2 trailing DEFAULTED parameters called with positional, "
        "keyword and omitted arguments; ill-typed: unknown keyword, keyword twice, keyword + positional for one parameter, too "
        "many positional arguments, keyword / positional argument of the wrong type, missing required argument; every twin "
        "must also print its known value under -ginterp; enumerated in python, no Coq model",
        "ambiguous-overload: the second definition alone is legal Aldor; the error is expected at the appended use (last line) "
        "or in the second definition",
        "programs are compiled against the PRE-BUILT libaldor (.al) of /repo; the compiler itself is built from the current tree",
        "quick tier plants at most %d evenly spread eligible sites per kind and program; the thorough tier plants every "
        "eligible site of every program it reaches within its time budget" % 6,
        "Coq extraction (ExtrOcamlBasic only), OCaml and Print.v (renderer) / Tool.v (line ranges) are trusted",
    )


def _judge_obj(aldor, o, base):
    r = compile_src(aldor, o["src"], base)
    if o.get("mode") == "accept":
        return judge_accept(r), r
    return judge_reject(r, [tuple(x) for x in (o.get("fault_line_ranges") or [(1, 10 ** 9)])]), r


def replay(path):
    obj = json.load(open(path))
    o = obj.get("replay", obj)
    aldor = C.build_compiler()
    cls, r = _judge_obj(aldor, o, C.scratch("c06r"))
    print(o["src"])
    print("--- mode=%s fault lines=%s\n--- rc=%s files left=%s\n%s" % (o.get("mode"), o.get("fault_line_ranges"), r["rc"],
                                                                 r["files"], r["out"][:3000]))
    print("--- verdict: %s" % (cls or "as the property demands"))
    return 1 if cls else 0
