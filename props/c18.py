"""C18 - A successful exit means every requested output was written.

Model: coq/Emit/Model.v (commit protocol open; write*; close per output, with
the per-site "close is checked" flag regenerated from emit.c / lib.c).
Theorems: coq/Props/Properties_C18.v.  Decision on the real compiler: fault
enumeration - every output kind x {device full while writing (LD_PRELOAD
shim redirecting the stream to /dev/full), target is a directory, parent of the
target is a regular file} x singles and pairs of outputs, compiler rebuilt
from the current tree.
"""
import concurrent.futures, itertools, json, os, re, shutil
from vlib import common as C

LEVEL = "fault_enumeration"
MANIFEST = {
    "level_text": "Coq theorem over the output commit protocol: with every emitter closing its stream through the "
                  "checked close (a table regenerated from the current emit.c/lib.c on every run and required to be "
                  "all-checked), for ANY set and order of requested outputs and ANY pattern of failing opens, writes, "
                  "flushes and closes, exit status 0 implies every output complete and any failure gives a non-zero "
                  "status. The claim about the real compiler is decided by fault enumeration on the compiler rebuilt "
                  "from the current tree: each output kind x each injected fault x singles and pairs; partial: stdio and "
                  "the kernel are not modelled, the shim decides which stream fails.",
    "level_note": "Trusted: Coq kernel; tools/… translator in props/c18.py (syntactic scan of emit.c/lib.c for "
                  "fileWrOpen/emitClose/fclose pairing); harness/shim/failwrite.c (fopen interposer -> /dev/full); "
                  "outputs of the fault-free run taken as 'complete'. Not modelled: stdio buffering, the OS, outputs "
                  "produced by external tools (cc, ar, linker: -Fo -Fx -Fmain executables).",
    "technique": "Coq proof over regenerated emitter-site table + fault enumeration on the rebuilt compiler",
}
PROPS = "Props/Properties_C18.v"
TARGETS = ["Props/Properties_C18.vo"]

KINDS = ["ai", "ap", "asy", "ao", "fm", "lsp", "c", "java"]
# further requested outputs with more than one file: the generated main file (-Fmain) and C split
# into pieces with a shared header (-Fc -Csmax=2).  Each entry: label -> (arguments, victim file suffixes)
MULTI = {
    "main": (["-Fmain"], ["u-aldormain.c"]),
    "csplit": (["-Fc", "-Csmax=2"], ["u.h", "u.c", "u002.c"]),
}


# ------------------------------------------------------------------ translator
def split_functions(src):
    """very small C splitter: top-level function bodies by brace matching; returns {name: body}."""
    res = {}
    for m in re.finditer(r"^(\w+)\s*\(([^;{}]*)\)\s*\n\{", src, re.M):
        i = m.end()
        depth = 1
        while depth and i < len(src):
            ch = src[i]
            if ch == "{":
                depth += 1
            elif ch == "}":
                depth -= 1
            i += 1
        res[m.group(1)] = src[m.end():i]
    return res


def emit_sites():
    emit = open(C.SRC + "/emit.c").read()
    emit_nc = re.sub(r"/\*.*?\*/", "", emit, flags=re.S)
    fns = split_functions(emit_nc)
    sites = []
    ec = fns.get("emitClose", "")
    close_ok = ("ferror(fout)" in ec and re.search(r"fclose\(fout\)\s*!=\s*0", ec) is not None
                and "comsgFatal" in ec)
    for name, body in fns.items():
        opens = len(re.findall(r"\bfileWrOpen\s*\(", body)) - len(re.findall(r"fclose\s*\(\s*fileWrOpen", body))
        if opens <= 0 or name == "emitClose":
            continue
        closes = len(re.findall(r"\bemitClose\s*\(", body))
        raw = len(re.findall(r"\bfclose\s*\(", body)) - len(re.findall(r"fclose\s*\(\s*fileWrOpen", body))
        # distinct streams opened vs closed: every stream variable that is opened must be closed by emitClose
        vars_open = set(re.findall(r"(\w+)\s*=\s*fileWrOpen\s*\(", body))
        vars_closed = set(re.findall(r"\bemitClose\s*\(\s*(\w+)\s*,", body))
        checked = close_ok and raw == 0 and closes >= 1 and vars_open <= vars_closed
        sites.append((name, checked, dict(opens=opens, emitClose=closes, raw_fclose=raw,
                                          streams=sorted(vars_open), closed=sorted(vars_closed))))
    lib = re.sub(r"/\*.*?\*/", "", open(C.SRC + "/lib.c").read(), flags=re.S)
    lc = split_functions(lib).get("libClose", "")
    lib_ok = ("ferror(lib->file)" in lc and re.search(r"fclose\(lib->file\)\s*!=\s*0", lc) is not None
              and "libFatal" in lc)
    sites.append(("libClose", lib_ok, {}))
    return sites, close_ok


def generate():
    sites, close_ok = emit_sites()
    rows = "; ".join('("%s", %s)' % (n, "true" if c else "false") for n, c, _ in sites)
    txt = ("(* GENERATED from emit.c / lib.c on every run - do not edit *)\nFrom Coq Require Import List String Bool.\n"
           "Import ListNotations.\nLocal Open Scope string_scope.\n"
           "Definition emit_sites : list (string * bool) := [%s].\n" % rows)
    C.write_if_changed(C.COQ + "/Gen/EmitSites.v", txt)
    return sites


# ------------------------------------------------------------------ fault enumeration
SRC_TEXT = '''#include "aldor"
#include "aldorio"
Foo: with { f: MachineInteger -> MachineInteger } == add { f(x: MachineInteger): MachineInteger == x + 1 }
import from MachineInteger, Foo;
g(n: MachineInteger): MachineInteger == if n < 2 then 1 else n * g(n - 1);
h(n: MachineInteger): MachineInteger == f(n) + g(n);
stdout << h(5) << newline;
'''


def run_multi(exe, shim, work, idx, label, victim):
    """one requested multi-file output; victim = file suffix redirected to /dev/full (None = no fault)"""
    d = "%s/m%d" % (work, idx)
    os.makedirs(d)
    open(d + "/u.as", "w").write(SRC_TEXT)
    env = C.aldor_env()
    args, victims = MULTI[label]
    if victim:
        env["LD_PRELOAD"] = shim
        env["VERIF_FAIL_PATH"] = victim
    rc, out, err = C.run(C.aldor_base_args(exe) + args + ["u.as"], cwd=d, env=env, timeout=120)
    files = {f: os.path.getsize(d + "/" + f) for f in sorted(os.listdir(d)) if f != "u.as" and os.path.isfile(d + "/" + f)}
    return dict(label=label, args=args, victim=victim, rc=rc, text=(out + err)[:600], files=files)


def out_path(kind, d):
    return d + ("/aldorcode/u.java" if kind == "java" else "/u." + kind)


def run_case(exe, shim, work, idx, kinds, fault, victim):
    d = "%s/c%d" % (work, idx)
    os.makedirs(d)
    open(d + "/u.as", "w").write(SRC_TEXT)
    env = C.aldor_env()
    args = []
    for k in kinds:
        if k == victim and k == "java" and fault in ("isdir", "notdir"):
            # the Java emitter derives its own path (aldorcode/<unit>.java)
            if fault == "isdir":
                os.makedirs(d + "/aldorcode/u.java")
            else:
                open(d + "/aldorcode", "w").write("x")
            args.append("-Fjava")
        elif k == victim and fault == "isdir":
            os.makedirs(d + "/dir." + k)
            args.append("-F%s=dir.%s" % (k, k))
        elif k == victim and fault == "notdir":
            open(d + "/plainfile", "w").write("x")
            args.append("-F%s=plainfile/u.%s" % (k, k))
        else:
            args.append("-F" + k)
    if fault == "full":
        env["LD_PRELOAD"] = shim
        env["VERIF_FAIL_PATH"] = "u." + victim
    rc, out, err = C.run(C.aldor_base_args(exe) + args + ["u.as"], cwd=d, env=env, timeout=120)
    sizes = {}
    for k in kinds:
        p = out_path(k, d)
        sizes[k] = os.path.getsize(p) if os.path.isfile(p) else None
    return dict(kinds=kinds, fault=fault, victim=victim, rc=rc, text=(out + err)[:600], sizes=sizes, args=args)


def run(rep, tier):
    sites = generate()
    rep.add_cov(emit_sites={n: c for n, c, _ in sites}, site_detail={n: d for n, c, d in sites})
    C.proof_stage(rep, "C18", TARGETS, PROPS, searcher=None, defer=True)
    # The searcher for a failed obligation is the fault enumeration below: it is always run.
    exe = C.build_compiler()
    d0 = C.scratch("c18")
    rc, out, err = C.run(["gcc", "-shared", "-fPIC", "-O1", "-o", d0 + "/failwrite.so",
                          C.VERIF + "/harness/shim/failwrite.c", "-ldl"])
    if rc != 0:
        raise C.BuildError("shim: " + err[-500:])
    shim = d0 + "/failwrite.so"
    # reference: fault-free sizes
    ref = run_case(exe, shim, d0, 0, KINDS, None, None)
    if ref["rc"] != 0 or any(v is None or v == 0 for v in ref["sizes"].values()):
        rep.violation("fault-free compilation with all outputs requested failed or left an output missing",
                      ref, key=None)
        return
    cases = []
    for k in KINDS:
        for fault in ("full", "isdir", "notdir"):
            cases.append(([k], fault, k))
    pairs = list(itertools.permutations(KINDS, 2))
    rnd = C.rng("c18")
    if tier == "quick":
        pairs = rnd.sample(pairs, 16)
    for a, b in pairs:
        cases.append(([a, b], "full", a))
        if tier == "thorough":
            cases.append(([a, b], "isdir", b))
    if tier == "thorough":
        for r in (3, 4, 8):
            for _ in range(12):
                ks = rnd.sample(KINDS, r)
                cases.append((ks, "full", rnd.choice(ks)))
    # no-fault subsets: exit 0 and complete
    for ks in ([k] for k in KINDS):
        cases.append((ks, None, None))
    results = []
    with concurrent.futures.ThreadPoolExecutor(C.NCPU) as ex:
        futs = [ex.submit(run_case, exe, shim, d0, i + 1, ks, f, v) for i, (ks, f, v) in enumerate(cases)]
        for f in futs:
            results.append(f.result())
    nviol = 0
    dist = {}
    for r in results:
        key = "%s/%s" % (r["fault"], r["victim"])
        dist[r["fault"] or "none"] = dist.get(r["fault"] or "none", 0) + 1
        complete = all(r["sizes"][k] is not None and r["sizes"][k] == ref["sizes"][k] for k in r["kinds"])
        has_diag = re.search(r"\((Fatal Error|Error)\)", r["text"]) is not None
        fault_class = "aborted" if (r["rc"] < 0 or "Program fault" in r["text"] or "Compiler bug" in r["text"]) else None
        if r["fault"] is None:
            if r["rc"] != 0 or not complete:
                rep.violation("fault-free run: rc=%s, outputs complete=%s for %s" % (r["rc"], complete, r["kinds"]), r)
            continue
        if fault_class:
            rep.violation("compiler faulted while handling an unwritable output (-F%s, %s)" % (r["victim"], r["fault"]), r,
                          key="fault:%s:%s" % (r["fault"], r["victim"]))
        elif r["rc"] == 0:
            # exit 0 although the victim output could not be written
            rep.violation("exit status 0 although output -F%s could not be written (%s); requested %s"
                          % (r["victim"], r["fault"], r["kinds"]), r, key="exit0:%s:%s" % (r["fault"], r["victim"]))
        elif not has_diag:
            rep.violation("non-zero exit without any error message (-F%s, %s)" % (r["victim"], r["fault"]), r,
                          key="nodiag:%s:%s" % (r["fault"], r["victim"]))
    # multi-file outputs
    mres = []
    for li, (label, (margs, victims)) in enumerate(sorted(MULTI.items())):
        ref_m = run_multi(exe, shim, d0, 100 * li, label, None)
        if ref_m["rc"] != 0 or not all(any(f.endswith(v) for f in ref_m["files"]) for v in victims):
            rep.violation("fault-free run of %s failed or did not produce %s" % (margs, victims), ref_m)
            continue
        for vi, v in enumerate(victims):
            r = run_multi(exe, shim, d0, 100 * li + vi + 1, label, v)
            mres.append(r)
            has_diag = re.search(r"\((Fatal Error|Error)\)", r["text"]) is not None
            if r["rc"] < 0 or "Program fault" in r["text"] or "Compiler bug" in r["text"]:
                rep.violation("compiler faulted while handling an unwritable output (%s, %s)" % (label, v), r, key="fault:full:%s:%s" % (label, v))
            elif r["rc"] == 0:
                rep.violation("exit status 0 although %s of the requested output %s could not be written (device full)"
                              % (v, " ".join(margs)), r, key="exit0:full:%s:%s" % (label, v))
            elif not has_diag:
                rep.violation("non-zero exit without any error message (%s, %s)" % (label, v), r, key="nodiag:full:%s:%s" % (label, v))
    results_n = len(results) + len(mres)
    rep.add_cov(multi_file_cases=[{k: r[k] for k in ("label", "victim", "rc")} for r in mres])
    rep.add_cov(evaluations=results_n, distinct_nontrivial=len({(tuple(r["kinds"]), r["fault"], r["victim"]) for r in results if r["fault"]}) + len(mres),
                rule="each case = (requested output kinds, injected fault in {full,isdir,notdir}, victim output); non-trivial = a fault is injected; "
                     "kinds " + ",".join(KINDS),
                samples=[{k: r[k] for k in ("args", "fault", "victim", "rc", "sizes")} for r in results[:3] + results[-2:]],
                input_distribution=dist, reference_sizes=ref["sizes"])
    rep.assume("LD_PRELOAD fopen interposer decides which stream fails; /dev/full gives ENOSPC at flush time",
               "fault-free outputs of the same compiler taken as the meaning of 'complete'",
               "stdio, kernel, and outputs produced by cc/ar/linker are not modelled")


def replay(path):
    r = json.load(open(path))
    print(json.dumps(r, indent=1)[:3000])
    rep = C.Report("C18", "quick", LEVEL)
    run(rep, "quick")
    return 1 if rep.violations else 0
