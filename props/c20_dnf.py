"""C20, part "dnf": disjunctive normal form (dnf.c).

Stages (same as `run` in tools/BUILDER_CONTRACT.md, for this part only):
  proof stage  coq/Props/Properties_C20_dnf.v  (model coq/Dnf/Model.v, lemmas coq/Dnf/Facts.v)
  correspondence  harness/dnf/h.c (#includes the CURRENT dnf.c) against the extracted model
  independent oracle  truth tables computed here, in python, from the printed structures
  evidence  rep.add_cov(dnf={...})

The current dnf.c cancels negations of multi-literal conjunctions in dnfOrMerge (recorded
finding, key KEY_KNOWN): a truth-table disagreement is reported under that key only if the
implementation still equals the model of the code as it is AND the disagreement disappears
under the single-literal rule (extracted dnfOr1/dnfAnd1/dnfNot1/build1); everything else is
reported without that key.
"""
import itertools, json, os, time
from vlib import common as C

PART = "dnf"
PID = "C20"
KEY_KNOWN = "dnf:or-merge-multi-literal-cancel"
PROPS = "Props/Properties_C20_dnf.v"
TARGETS = ["Props/Properties_C20_dnf.vo", "Dnf/Extract.vo"]

MANIFEST_PART = {
    "what": "dnf.c: every function (dnfAtomLT, dnfAndMerge/Implies/ImpliesNegation/CancelNegation/Not, "
            "dnfOrMerge double loop, dnfTrue/False/IsTrue/IsFalse/Atom/NotAtom/Copy/Or/And/Not, dnfImplies, "
            "dnfEqual, dnfExpandImplies, dnfMap) as Gallina functions over lists of Z; theorems for all "
            "valuations and all well-formed DNFs of any size: constants, atoms, wf established by every "
            "constructor, dnfImplies/dnfEqual/dnfExpandImplies sound, dnfIsFalse complete; for and/or/not of "
            "the CURRENT code: refuted by witness (multi-literal cancel-negation), proved to weaken only and "
            "to be exact when no multi-literal cancellation occurs; full equivalences proved for the "
            "single-literal rule.  Tie: exhaustive level sets (all values reachable by formulas of depth <= 3, "
            "deduplicated by structure) over 2 and 3 atoms (quick), plus 4 atoms in the thorough tier (depth 2 "
            "complete, depth 3 sampled up to VERIF_DNF_CAP operations; the evidence says which levels were "
            "sampled) + random formulas/DNFs over 10 atoms, implementation vs extracted model (structural) "
            "and vs python truth tables.",
    "not_modelled": "storage of DNF values (alloc/copy/free, shared static true/false), int overflow of "
                    "-INT_MIN, dnfPrint/dnfFormatter text, dnfAlias/dnfFollow (marked broken in the source), "
                    "callers in ablogic.c/tfcond.c; completeness of the syntactic dnfImplies/dnfEqual is not "
                    "claimed",
}

_built = {}


def lib_files(exclude):
    gen = C.makefile_am_sources("libgen_a_SOURCES")
    port = C.makefile_am_sources("libport_a_SOURCES")
    return [f for f in gen + port if f not in exclude and f != "test.c"]


def harness():
    if "h" not in _built:
        _built["h"] = C.build_harness("dnf", "dnf/h.c", lib_files(("dnf.c",)))
    return _built["h"]


def model():
    if "m" not in _built:
        d = C.COQ + "/Dnf/extracted/"
        _built["m"] = C.build_ocaml("dnfm", [d + "dnf_model.mli", d + "dnf_model.ml"], C.COQ + "/Dnf/driver.ml")
    return _built["m"]


# ------------------------------------------------------------------ syntax
_fmt_cache = {}


def fmt(d):
    r = _fmt_cache.get(d)
    if r is None:
        r = "{" + "".join(("N" if c is None else ",".join(map(str, c))) + ";" for c in d) + "}"
        if len(_fmt_cache) < 300000:
            _fmt_cache[d] = r
    return r


_parse_cache = {}


def parse(s):
    r = _parse_cache.get(s)
    if r is None:
        r = _parse(s)
        if len(_parse_cache) < 300000:
            _parse_cache[s] = r
    return r


def _parse(s):
    s = s.strip()
    if not (s.startswith("{") and s.endswith("}")):
        raise ValueError("not a dnf: %r" % s)
    body = s[1:-1]
    if body == "":
        return ()
    parts = body.split(";")
    if parts[-1] != "":
        raise ValueError("not a dnf: %r" % s)
    out = []
    for c in parts[:-1]:
        if c == "N":
            out.append(None)
        elif c == "":
            out.append(())
        else:
            out.append(tuple(int(x) for x in c.split(",")))
    return tuple(out)


def parse_conj(s):
    s = s.strip()
    if s in ("NULL", "PRE", "NONE"):
        return s
    if not (s.startswith("[") and s.endswith("]")):
        raise ValueError("not a conj: %r" % s)
    return tuple(int(x) for x in s[1:-1].split(",")) if len(s) > 2 else ()


def fmt_form(f):
    if f[0] == "T" or f[0] == "F":
        return f[0]
    if f[0] == "a":
        return str(f[1])
    if f[0] == "~":
        return "~ " + fmt_form(f[1])
    return f[0] + " " + fmt_form(f[1]) + " " + fmt_form(f[2])


# ------------------------------------------------------------------ truth tables (the independent oracle)
class TT:
    def __init__(self, n):
        self.n = n
        self.rows = 1 << n
        self.all = (1 << self.rows) - 1
        self.mask = [0] * (n + 1)
        self.cache = {}
        for v in range(1, n + 1):
            m = 0
            for r in range(self.rows):
                if (r >> (v - 1)) & 1:
                    m |= 1 << r
            self.mask[v] = m

    def lit(self, a):
        return self.mask[a] if a > 0 else self.all ^ self.mask[-a]

    def conj(self, c):
        m = self.all
        for a in c:
            m &= self.lit(a)
        return m

    def dnf(self, d):
        m = self.cache.get(d)
        if m is not None:
            return m
        m = 0
        for c in d:
            if c is not None:
                m |= self.conj(c)
        if len(self.cache) < 300000:
            self.cache[d] = m
        return m

    def form(self, f):
        k = f[0]
        if k == "T":
            return self.all
        if k == "F":
            return 0
        if k == "a":
            return self.lit(f[1])
        if k == "~":
            return self.all ^ self.form(f[1])
        if k == "&":
            return self.form(f[1]) & self.form(f[2])
        return self.form(f[1]) | self.form(f[2])

    def witness(self, bits):
        """a valuation (dict atom -> bool) for the lowest set bit"""
        r = (bits & -bits).bit_length() - 1
        return {v: bool((r >> (v - 1)) & 1) for v in range(1, self.n + 1)}


def wf_conj(c):
    prev = 0
    for a in c:
        if abs(a) <= prev:
            return False
        prev = abs(a)
    return True


_wf_cache = {}


def wf_dnf(d):
    r = _wf_cache.get(d)
    if r is None:
        r = all(c is not None and wf_conj(c) for c in d)
        if len(_wf_cache) < 300000:
            _wf_cache[d] = r
    return r


def atoms_of(objs):
    m = 0
    for d in objs:
        for c in d:
            if c:
                for a in c:
                    m = max(m, abs(a))
    return m


# ------------------------------------------------------------------ running
def run_lines1(exe, lines, timeout=900):
    rc, out, err = C.run([exe], input="\n".join(lines) + "\n", timeout=timeout)
    res = out.split("\n")
    if res and res[-1] == "":
        res.pop()
    return rc, res, err


def run_lines(exe, lines, timeout=900):
    """big scripts are cut into chunks run by parallel processes (every line is self-contained)"""
    if len(lines) < 20000:
        return run_lines1(exe, lines, timeout)
    import concurrent.futures
    nchunk = min(max(2, C.NCPU // 2), 8)
    size = (len(lines) + nchunk - 1) // nchunk
    chunks = [lines[i:i + size] for i in range(0, len(lines), size)]
    with concurrent.futures.ThreadPoolExecutor(len(chunks)) as ex:
        parts = list(ex.map(lambda ch: run_lines1(exe, ch, timeout), chunks))
    res = []
    for ch, (rc, part, err) in zip(chunks, parts):
        res += part
        if len(part) != len(ch):
            return rc, res, err          # stopped inside this chunk: caller resumes after it
    return 0, res, ""


class Op:
    """one script line with its parsed arguments"""
    __slots__ = ("line", "op", "args", "extra", "wf")

    def __init__(self, op, args, extra=None):
        self.op, self.args, self.extra = op, args, extra
        if op == "form":
            self.line = "form " + fmt_form(args[0])
            self.wf = True
        elif op in ("atom", "natom"):
            self.line = "%s %d" % (op, args[0])
            self.wf = args[0] != 0
        elif op in ("true", "false"):
            self.line = op
            self.wf = True
        elif op == "expand":
            tbl = ",".join("%d:%d" % p for p in extra) if extra else "_"
            self.line = "expand %s %s %s" % (tbl, fmt(args[0]), fmt(args[1]))
            self.wf = all(wf_dnf(a) for a in args)
        elif op == "map":
            self.line = "map %d %s" % (extra, fmt(args[0]))
            self.wf = True
        elif op == "ormerge":
            self.line = "ormerge " + fmt(args[0])
            self.wf = all(c is None or wf_conj(c) for c in args[0])
        else:
            self.line = op + " " + " ".join(fmt(a) for a in args)
            self.wf = all(wf_dnf(a) for a in args)


BIN = {"and": lambda x, y: x & y, "or": lambda x, y: x | y}


def oracle(o, cres, mfields, tts):
    """Check the property statement on the implementation's result `cres` for operation `o`,
    independently of the model (truth tables).  Returns None or (what, known_candidate)."""
    op = o.op
    if not o.wf:
        return None                      # malformed stream: only model/impl agreement is checked
    if cres.startswith("crash") or cres == "":
        return ("implementation crashed on %s (%s)" % (o.line, cres), False)
    if op == "form":
        n = max(1, atoms_of([[(a,)] for a in form_atoms(o.args[0])]))
    elif op in ("atom", "natom"):
        n = max(1, abs(o.args[0]))
    else:
        n = max(1, atoms_of(o.args), max([abs(a) for p in (o.extra or []) for a in p], default=0)
                if op == "expand" else 0)
    if n > 12:
        return None
    T = tts.setdefault(n, TT(n))
    if op in ("and", "or", "not", "form", "ormerge", "copy", "atom", "natom", "true", "false", "anot"):
        r = parse(cres)
        if op == "and" or op == "or":
            exp = BIN[op](T.dnf(o.args[0]), T.dnf(o.args[1]))
        elif op == "not":
            exp = T.all ^ T.dnf(o.args[0])
        elif op == "form":
            exp = T.form(o.args[0])
        elif op == "ormerge" or op == "copy":
            exp = T.dnf(o.args[0])
        elif op == "atom":
            exp = T.lit(o.args[0])
        elif op == "natom":
            exp = T.lit(-o.args[0])
        elif op == "true":
            exp = T.all
        elif op == "false":
            exp = 0
        else:  # anot
            exp = T.all ^ T.conj(o.args[0][0])
        if any(c is None for c in r):
            return ("result contains a NULL slot", False)
        if not wf_dnf(r):
            return ("result %s is not well-formed (literals must be non-zero and strictly increasing in "
                    "absolute value)" % cres, False)
        got = T.dnf(r)
        if got != exp:
            bad = got ^ exp
            w = T.witness(bad)
            known = False
            if op in ("and", "or", "not", "form", "ormerge") and mfields and len(mfields) == 3:
                # known finding only if impl == model of the code as it is, and the restricted rule is right
                try:
                    known = (mfields[0] == cres) and mfields[0] != mfields[1] and T.dnf(parse(mfields[1])) == exp
                except ValueError:
                    known = False
            weaker = (exp & ~got) == 0
            return ("%s: result %s is not equivalent to what it was built from; differs under valuation %s "
                    "(expected %s, result says %s)%s" % (
                        o.line, cres, json.dumps(w, sort_keys=True), bool(exp & (bad & -bad)),
                        bool(got & (bad & -bad)), "" if weaker else " [result is not even implied by the formula]"),
                    known)
        return None
    if op in ("istrue", "isfalse"):
        t = T.dnf(o.args[0])
        v = cres == "1"
        if op == "istrue" and v and t != T.all:
            return ("dnfIsTrue answered true for %s which is falsifiable" % fmt(o.args[0]), False)
        if op == "isfalse" and v != (t == 0):
            return ("dnfIsFalse answered %s for well-formed %s whose satisfiability is %s" % (
                cres, fmt(o.args[0]), t != 0), False)
        return None
    if op in ("implies", "equal", "equalsame"):
        a = T.dnf(o.args[0])
        b = T.dnf(o.args[1] if op != "equalsame" else o.args[0])
        if cres == "1":
            if op == "implies" and (a & ~b) != 0:
                return ("dnfImplies(%s, %s) = true contradicts the truth table under %s" % (
                    fmt(o.args[0]), fmt(o.args[1]), json.dumps(T.witness(a & ~b), sort_keys=True)), False)
            if op != "implies" and a != b:
                return ("dnfEqual(%s, %s) = true contradicts the truth table under %s" % (
                    fmt(o.args[0]), fmt(o.args[1]), json.dumps(T.witness(a ^ b), sort_keys=True)), False)
        elif op == "equalsame":
            return ("dnfEqual(x, x) answered false for x = %s" % fmt(o.args[0]), False)
        return None
    if op == "expand":
        if cres == "1":
            ok = T.all
            for (p, q) in (o.extra or []):
                ok &= (T.all ^ T.lit(p)) | T.lit(q)          # valuations where the table is sound
            a, b = T.dnf(o.args[0]), T.dnf(o.args[1])
            if (ok & a & ~b) != 0:
                return ("dnfExpandImplies(%s, %s) = true with table %s contradicts the truth table under %s" % (
                    fmt(o.args[0]), fmt(o.args[1]), o.extra, json.dumps(T.witness(ok & a & ~b), sort_keys=True)),
                    False)
        return None
    if op == "amerge":
        r = parse_conj(cres)
        exp = T.conj(o.args[0][0]) & T.conj(o.args[1][0])
        if r == "NULL":
            if exp != 0:
                return ("dnfAndMerge returned NULL for a satisfiable pair: %s" % o.line, False)
        else:
            if not wf_conj(r) or T.conj(r) != exp:
                return ("dnfAndMerge result %s wrong for %s" % (cres, o.line), False)
        return None
    if op == "aimplies":
        if cres == "1" and (T.conj(o.args[0][0]) & ~T.conj(o.args[1][0])) != 0:
            return ("dnfAndImplies true contradicts truth table: %s" % o.line, False)
        return None
    if op == "aimpneg":
        # xx implies ~yy?  (yy non-empty)
        if cres == "1" and o.args[1][0] and (T.conj(o.args[0][0]) & T.conj(o.args[1][0])) != 0:
            return ("dnfAndImpliesNegation true contradicts truth table: %s" % o.line, False)
        return None
    if op == "acancel":
        r = parse_conj(cres)
        if r not in ("PRE", "NONE") and len(o.args[1][0]) == 1:
            y = T.conj(o.args[1][0])
            if (T.conj(r) | y) != (T.conj(o.args[0][0]) | y):
                return ("dnfAndCancelNegation single-literal result wrong: %s -> %s" % (o.line, cres), False)
        return None
    return None


def form_atoms(f):
    if f[0] == "a":
        return [f[1]]
    if f[0] in ("T", "F"):
        return []
    return [a for g in f[1:] for a in form_atoms(g)]


# ------------------------------------------------------------------ shrinking
def shrink_candidates(o):
    """smaller variants of one operation"""
    if o.op == "form":
        def subs(f):
            if f[0] in ("T", "F", "a"):
                return
            for g in f[1:]:
                yield g
            if f[0] == "~":
                for s in subs(f[1]):
                    yield ("~", s)
            else:
                for s in subs(f[1]):
                    yield (f[0], s, f[2])
                for s in subs(f[2]):
                    yield (f[0], f[1], s)
        for g in subs(o.args[0]):
            yield Op("form", [g])
        return
    if o.op in ("atom", "natom", "true", "false", "map"):
        return
    for ai, d in enumerate(o.args):
        for ci in range(len(d)):
            if len(d) > 1 or o.op in ("and", "or", "not", "implies", "equal", "ormerge", "expand"):
                nd = d[:ci] + d[ci + 1:]
                if o.op in ("amerge", "aimplies", "aimpneg", "acancel", "anot") and len(nd) == 0:
                    continue
                yield Op(o.op, o.args[:ai] + [nd] + o.args[ai + 1:], o.extra)
            c = d[ci]
            if c:
                for li in range(len(c)):
                    nc = c[:li] + c[li + 1:]
                    nd = d[:ci] + (nc,) + d[ci + 1:]
                    yield Op(o.op, o.args[:ai] + [nd] + o.args[ai + 1:], o.extra)


def shrink(o, still_bad, budget=400):
    cur = o
    improved = True
    while improved and budget > 0:
        improved = False
        for cand in shrink_candidates(cur):
            budget -= 1
            if budget <= 0:
                break
            if len(cand.line) < len(cur.line) and still_bad(cand):
                cur = cand
                improved = True
                break
    return cur


# ------------------------------------------------------------------ generators
def rand_conj(rnd, natoms, maxlen, malformed=False):
    k = rnd.randint(0, min(maxlen, natoms))
    vs = sorted(rnd.sample(range(1, natoms + 1), k))
    c = [v if rnd.random() < 0.5 else -v for v in vs]
    if malformed and c:
        w = rnd.random()
        if w < 0.4:
            rnd.shuffle(c)
        elif w < 0.7:
            c.insert(rnd.randrange(len(c) + 1), rnd.choice(c))
        elif w < 0.85:
            c.insert(rnd.randrange(len(c) + 1), -rnd.choice(c))
        else:
            c[rnd.randrange(len(c))] = 0
    return tuple(c)


def rand_dnf(rnd, natoms, maxconj, maxlen, malformed=False):
    n = rnd.randint(0, maxconj)
    return tuple(rand_conj(rnd, natoms, maxlen, malformed and rnd.random() < 0.5) for _ in range(n))


def rand_form(rnd, natoms, depth):
    if depth == 0 or rnd.random() < 0.15:
        w = rnd.random()
        if w < 0.06:
            return ("T",)
        if w < 0.12:
            return ("F",)
        v = rnd.randint(1, natoms)
        return ("a", v if rnd.random() < 0.6 else -v)
    w = rnd.random()
    if w < 0.25:
        return ("~", rand_form(rnd, natoms, depth - 1))
    return ("&" if w < 0.62 else "|", rand_form(rnd, natoms, depth - 1), rand_form(rnd, natoms, depth - 1))


def targeted_ops():
    """aimed at the case splits of the proofs: the cancel rule with k = 1, 2, 3 literals, residue R
    empty / non-empty, both orders in the array, absorption i=>j in both orders, equal disjuncts,
    contradiction inside dnfAndMerge, prefix/suffix positions in dnfAndImplies."""
    ops = []
    for k in (1, 2, 3):
        ys = tuple(range(1, k + 1))
        nys = tuple(-v for v in ys)
        for R in ((), (5,), (-4, 6)):
            xi = tuple(sorted(nys + R, key=abs))
            for a, b in (((xi,), (ys,)), ((ys,), (xi,)), ((xi, (7,)), (ys,)), ((ys, xi), ((8,),))):
                ops.append(Op("or", [a, b]))
                ops.append(Op("and", [a + ((9,),), b + ((9,),)]))
            ops.append(Op("ormerge", [(xi, None, ys)]))
            ops.append(Op("ormerge", [(ys, xi, xi)]))
            ops.append(Op("not", [(ys, xi)]))
            ops.append(Op("acancel", [(xi,), (ys,)]))
            ops.append(Op("aimpneg", [(xi,), (ys,)]))
    for x, y in (((1, 2, 3), (1, 3)), ((1, 2, 3), (3,)), ((1, 2, 3), (1,)), ((1, 2), (1, 2, 3)), ((1, 2, 3), (2, 4)),
                 ((1, 3), (2,)), ((), ()), ((1,), ()), ((), (1,)), ((1, -2), (1, 2)), ((2,), (1, 2))):
        ops.append(Op("aimplies", [(x,), (y,)]))
        ops.append(Op("aimpneg", [(x,), (tuple(-a for a in y),)]))
        ops.append(Op("amerge", [(x,), (y,)]))
        ops.append(Op("amerge", [(x,), (tuple(-a for a in y),)]))
        ops.append(Op("implies", [(x,), (y,)]))
        ops.append(Op("implies", [(x, y), (y,)]))
        ops.append(Op("equal", [(x, y), (y, x)]))
        ops.append(Op("or", [(x,), (y,)]))
        ops.append(Op("or", [(x,), (x,)]))
    for d in ((), ((),), ((1,),), ((), (1,)), ((1,), ())):
        ops += [Op("istrue", [d]), Op("isfalse", [d]), Op("not", [d]), Op("copy", [d]), Op("equalsame", [d]),
                Op("and", [d, ((2,),)]), Op("or", [d, ((2,),)]), Op("and", [((2,),), d]), Op("or", [((2,),), d])]
    ops += [Op("true", []), Op("false", []), Op("atom", [3]), Op("natom", [3]), Op("atom", [-3]),
            Op("expand", [((1, 2),), ((1, 7),)], [(1, 7)]), Op("expand", [((1, 2),), ((2, 7),)], [(1, 7)]),
            Op("expand", [((1, 2),), ((7, 8),)], [(1, 7), (2, 8)]), Op("expand", [((1,),), ((7, 8),)], [(1, 7), (1, 8)]),
            Op("map", [((1, 2), (3, 4), (5,))], 3), Op("map", [((1, 2), (3, 4), (5,))], 9),
            Op("anot", [((1, -2, 3),)]), Op("anot", [((),)])]
    return ops


def random_ops(rnd, n, natoms=10, malformed=False):
    ops = []
    for _ in range(n):
        w = rnd.random()
        mc, ml = rnd.choice(((2, 2), (3, 3), (4, 3), (6, 4), (8, 5)))
        na = rnd.choice((3, 4, 6, natoms))
        x = rand_dnf(rnd, na, mc, ml, malformed)
        y = rand_dnf(rnd, na, mc, ml, malformed)
        if w < 0.22:
            ops.append(Op("and", [x, y]))
        elif w < 0.44:
            ops.append(Op("or", [x, y]))
        elif w < 0.54:
            ops.append(Op("not", [rand_dnf(rnd, na, min(mc, 5), ml, malformed)]))
        elif w < 0.64:
            ops.append(Op("implies", [x, y]))
        elif w < 0.70:
            # implication that should often hold: y := x plus weakening
            y2 = tuple(c[:max(0, len(c) - rnd.randint(0, 1))] for c in x) + y[:1]
            ops.append(Op("implies", [x, y2]))
        elif w < 0.76:
            y2 = list(x)
            rnd.shuffle(y2)
            ops.append(Op("equal", [x, tuple(y2) if rnd.random() < 0.7 else y]))
        elif w < 0.80:
            tbl = [(rnd.choice((1, -1)) * rnd.randint(1, na), rnd.choice((1, -1)) * rnd.randint(1, na))
                   for _ in range(rnd.randint(0, 4))]
            ops.append(Op("expand", [x, y], tbl))
        elif w < 0.83:
            ops.append(Op("map", [x], rnd.choice((1, -1)) * rnd.randint(1, na)))
        elif w < 0.88:
            slots = tuple(None if rnd.random() < 0.15 else c for c in x + y)
            ops.append(Op("ormerge", [slots]))
        else:
            cx = (rand_conj(rnd, na, ml + 1, malformed),)
            cy = (rand_conj(rnd, na, ml + 1, malformed),)
            if rnd.random() < 0.5 and cx[0]:
                # make impliesNegation likely
                sub = tuple(-a for a in cx[0] if rnd.random() < 0.5)
                cy = (sub,)
            ops.append(Op(rnd.choice(("amerge", "aimplies", "aimpneg", "acancel")), [cx, cy]))
    return ops


# ------------------------------------------------------------------ the campaign
class Campaign:
    def __init__(self, rep, tier):
        self.rep, self.tier = rep, tier
        self.tts = {}
        self.evals = 0
        self.distinct = set()
        self.ops_hist = {}
        self.known_hits = 0
        self.reported = 0
        self.samples = []
        self.maxsize = 0
        self.col = None          # which model variant the implementation follows: 0 = rule as in /repo HEAD
                                 # (multi-literal cancel), 1 = single-literal rule (the repair)

    def variant(self):
        if self.col is None:
            _, out, _ = run_lines1(harness(), ["or {-1,-2;} {1,2;}", "or {3;1,2;} {-1,-2,4;}"], timeout=60)
            self.col = 0 if (out and out[0] == "{;}") else 1
        return self.col

    # -- one batch: run impl + model, diff, oracle
    def batch(self, ops, tag, want_results=False):
        if not ops:
            return []
        lines = [o.line for o in ops]
        import concurrent.futures
        mex = concurrent.futures.ThreadPoolExecutor(1)
        mfut = mex.submit(run_lines, model(), lines)
        cout = []
        deaths = 0
        while len(cout) < len(lines):
            rc, part, cerr = run_lines(harness(), lines[len(cout):])
            cout += part[:len(lines) - len(cout)]
            if len(cout) < len(lines):
                # the harness died inside this operation (exit from a failed assert, bug(), ...)
                deaths += 1
                cout.append("crash-exit(rc=%s %s)" % (rc, cerr.strip()[-120:].replace("\n", " ")))
                if deaths > 20:
                    cout += ["crash-exit(not run)"] * (len(lines) - len(cout))
        rm, mout, merr = mfut.result()
        mex.shutdown()
        if len(mout) != len(lines):
            raise RuntimeError("dnf model driver failed: rc=%s %s" % (rm, merr[-500:]))
        col = self.variant()
        for idx, (o, c, m) in enumerate(zip(ops, cout, mout)):
            self.ctx = lines[max(0, idx - 300):idx]
            mf = m.split("\t")
            if col == 1 and len(mf) == 3:
                mf = [mf[1], mf[1], "1"]         # implementation follows the single-literal rule
            self.evals += 1
            self.ops_hist[o.op] = self.ops_hist.get(o.op, 0) + 1
            self.maxsize = max(self.maxsize, len(o.line))
            if o.wf and len(c) > 3:
                self.distinct.add(c)
            if len(self.samples) < 12 and self.evals % 997 == 1:
                self.samples.append({"op": o.line, "impl": c, "model": mf[0]})
            bad = oracle(o, c, mf, self.tts)
            if bad is not None:
                self.report_property(o, c, mf, bad, tag)
            if c != mf[0]:
                self.report_mismatch(o, c, mf, tag, property_failed=bad is not None)
        return cout

    def one(self, o):
        rc, cout, _ = run_lines(harness(), [o.line], timeout=60)
        rm, mout, _ = run_lines(model(), [o.line], timeout=60)
        c = cout[0] if cout else "crash-exit"
        m = mout[0] if mout else "model-failed"
        mf = m.split("\t")
        if self.variant() == 1 and len(mf) == 3:
            mf = [mf[1], mf[1], "1"]
        return c, mf

    def report_property(self, o, c, mf, bad, tag):
        what, known = bad
        if known:
            self.known_hits += 1
            if self.known_hits > 1:
                return                      # KNOWN-FINDING is printed once; count the rest
            small = shrink(o, lambda q: self._known_bad(q))
            c2, mf2 = self.one(small)
            b2 = oracle(small, c2, mf2, self.tts)
            self.rep.violation((b2 or bad)[0], {"part": PART, "lines": [small.line], "impl": c2, "model_current": mf2[0],
                                                "model_single_literal_rule": mf2[1] if len(mf2) > 1 else None,
                                                "tag": tag}, key=KEY_KNOWN)
            return
        if self.reported >= 5:
            self.reported += 1
            return
        small = shrink(o, lambda q: self._unknown_bad(q))
        c2, mf2 = self.one(small)
        b2 = oracle(small, c2, mf2, self.tts)
        self.reported += 1
        if b2 is None or b2[1]:
            # does not fail when run alone: the failure depends on what the process did before
            # (storage damage by an earlier operation); keep the preceding operations in the replay
            self.rep.violation(bad[0] + " [only after the preceding operations of the same process]",
                               {"part": PART, "lines": list(getattr(self, "ctx", [])) + [o.line], "impl": c,
                                "model_current": mf[0], "tag": tag, "state_dependent": True},
                               key="dnf:" + o.line)
            return
        self.rep.violation(b2[0], {"part": PART, "lines": [small.line], "original": o.line, "impl": c2,
                                   "model_current": mf2[0], "tag": tag},
                           key="dnf:" + small.line)
        self._save_corpus(small)

    def _known_bad(self, q):
        c, mf = self.one(q)
        b = oracle(q, c, mf, self.tts)
        return b is not None and b[1]

    def _unknown_bad(self, q):
        c, mf = self.one(q)
        b = oracle(q, c, mf, self.tts)
        return b is not None and not b[1]

    def report_mismatch(self, o, c, mf, tag, property_failed):
        if property_failed:
            return                                   # already reported with the failing input
        if self.reported >= 5:
            self.reported += 1
            return

        def still(q):
            c2, m2 = self.one(q)
            return c2 != m2[0]
        small = shrink(o, still)
        c2, mf2 = self.one(small)
        b2 = oracle(small, c2, mf2, self.tts)
        self.reported += 1
        if b2 is not None and not b2[1]:
            self.rep.violation(b2[0], {"part": PART, "lines": [small.line], "impl": c2, "model_current": mf2[0],
                                       "tag": tag}, key="dnf:" + small.line)
            self._save_corpus(small)
        else:
            self.rep.violation("correspondence dnf no longer checks: implementation and model differ on %r "
                               "(impl %s, model %s) while the truth-table property still holds there" % (
                                   small.line, c2, mf2[0]),
                               {"part": PART, "lines": [small.line], "impl": c2, "model_current": mf2[0], "tag": tag},
                               no_input=True)

    def _save_corpus(self, o):
        d = os.path.join(C.VERIF, "corpus", PID)
        try:
            os.makedirs(d, exist_ok=True)
            p = os.path.join(d, "dnf.lines")
            old = open(p).read().split("\n") if os.path.exists(p) else []
            if o.line not in old and len(old) < 200:
                with open(p, "a") as f:
                    f.write(o.line + "\n")
        except OSError:
            pass

    # -- exhaustive level sets
    def exhaustive(self, natoms, depth, cap=None, cap_tests=None):
        """all values reachable by formulas of the given depth over natoms atoms: level 0 = constants and
        literals; level d+1 = level d + every not/and/or of level-d values (deduplicated by the structure
        the implementation returned: the operations are functions of the structure)."""
        t0 = time.time()
        lvl0 = [Op("true", []), Op("false", [])]
        for v in range(1, natoms + 1):
            lvl0 += [Op("atom", [v]), Op("natom", [v])]
        res = self.batch(lvl0, "exh%d-l0" % natoms)
        known = []
        seen = set()
        for r in res:
            d = parse(r)
            if d not in seen:
                seen.add(d)
                known.append(d)
        old = []
        new = known
        sizes = [len(known)]
        nops = len(lvl0)
        CH = 150000
        for lev in range(1, depth + 1):
            allv = old + new
            newset = set(new)
            last = lev == depth
            total = len(new) + 2 * (len(allv) ** 2 - len(old) ** 2)
            keep = 1.0 if (cap is None or total <= cap) else cap / float(total)
            if keep < 1.0:
                self.capped = True
            rnd = C.rng("dnf-exh-cap-%d-%d" % (natoms, lev))

            def specs():
                for x in new:
                    yield ("not", x, None)
                for x in allv:
                    xin = x in newset
                    for y in allv:
                        if xin or y in newset:
                            if keep >= 1.0 or rnd.random() < keep:
                                yield ("and", x, y)
                            if keep >= 1.0 or rnd.random() < keep:
                                yield ("or", x, y)
                if last:
                    # last level: also the tests on pairs of values (no new values)
                    npairs = len(allv) ** 2
                    kp = 1.0 if (cap_tests is None or npairs <= cap_tests) else cap_tests / float(npairs)
                    if kp < 1.0:
                        self.tests_sampled = True
                    r2 = C.rng("dnf-exh-pairs-%d" % natoms)
                    k = 0
                    for x in allv:
                        for y in allv:
                            if kp >= 1.0 or r2.random() < kp:
                                yield ("implies", x, y)
                                k += 1
                                if k % 3 == 0:
                                    yield ("equal", x, y)

            nxt = []
            hashes = set()
            chunk = []

            def flush():
                res = self.batch(chunk, "exh%d-l%d" % (natoms, lev))
                for o, r in zip(chunk, res):
                    if o.op in ("and", "or", "not") and not r.startswith("crash"):
                        if last:
                            hashes.add(hash(r))
                            continue
                        try:
                            d = parse(r)
                        except ValueError:
                            continue
                        if d not in seen and wf_dnf(d):
                            seen.add(d)
                            nxt.append(d)
                del chunk[:]

            for (name, x, y) in specs():
                chunk.append(Op(name, [x] if y is None else [x, y]))
                nops += 1
                if len(chunk) >= CH:
                    flush()
            if chunk:
                flush()
            old = allv
            new = nxt
            sizes.append(len(seen) if not last else len(hashes | {hash(fmt(d)) for d in seen}))
        return {"atoms": natoms, "depth": depth, "operations": nops, "distinct_values_per_level": sizes,
                "seconds": round(time.time() - t0, 1), "constructor_ops_sampled": bool(getattr(self, "capped", False)),
                "implies_equal_pairs_sampled": bool(getattr(self, "tests_sampled", False))}

    def corpus(self):
        p = os.path.join(C.VERIF, "corpus", PID, "dnf.lines")
        if not os.path.exists(p):
            return 0
        ops = [l for l in open(p).read().split("\n") if l.strip()]
        self.raw_batch(ops, "corpus")
        return len(ops)

    def raw_batch(self, lines, tag):
        ops = [line_to_op(l) for l in lines]
        self.batch([o for o in ops if o is not None], tag)


def parse_form(toks):
    t = toks.pop(0)
    if t == "&" or t == "|":
        a = parse_form(toks)
        b = parse_form(toks)
        return (t, a, b)
    if t == "~":
        return ("~", parse_form(toks))
    if t in ("T", "F"):
        return (t,)
    return ("a", int(t))


def line_to_op(line):
    toks = line.split()
    if not toks:
        return None
    op = toks[0]
    if op == "form":
        return Op("form", [parse_form(toks[1:])])
    if op in ("atom", "natom"):
        return Op(op, [int(toks[1])])
    if op in ("true", "false"):
        return Op(op, [])
    if op == "expand":
        tbl = [] if toks[1] == "_" else [tuple(int(x) for x in p.split(":")) for p in toks[1].split(",")]
        return Op(op, [parse(toks[2]), parse(toks[3])], tbl)
    if op == "map":
        return Op(op, [parse(toks[2])], int(toks[1]))
    return Op(op, [parse(t) for t in toks[1:]])


def campaign(rep, tier, state):
    if state.get("done"):
        return
    state["done"] = True
    cp = Campaign(rep, tier)
    rnd = C.rng("c20-dnf")
    t0 = time.time()
    ncorp = cp.corpus()
    cp.batch(targeted_ops(), "targeted")
    exh = []
    if tier == "quick":
        exh.append(cp.exhaustive(2, 3))
        exh.append(cp.exhaustive(3, 3, cap_tests=40000))
        nform, nrand, nmal = 3000, 6000, 2000
    else:
        exh.append(cp.exhaustive(2, 3))
        exh.append(cp.exhaustive(3, 3))
        exh.append(cp.exhaustive(4, 3, cap=int(os.environ.get("VERIF_DNF_CAP", "5000000")), cap_tests=200000))
        nform, nrand, nmal = 60000, 150000, 30000
    forms = []
    for i in range(nform):
        forms.append(Op("form", [rand_form(rnd, 10 if i % 3 else rnd.choice((3, 4, 5)), rnd.choice((2, 3, 4, 5)))]))
    cp.batch(forms, "random-formulas-10-atoms")
    cp.batch(random_ops(rnd, nrand), "random-wf-dnfs")
    cp.batch(random_ops(C.rng("c20-dnf-malformed"), nmal, malformed=True), "malformed")
    rep.add_cov(dnf={
        "evaluations": cp.evals, "distinct_nontrivial": len(cp.distinct),
        "traces_validated_against_impl": cp.evals,
        "rule": "every operation line run through harness/dnf/h.c (current dnf.c) and the extracted model: "
                "structural equality; plus python truth tables on every implementation result",
        "exhaustive": exh, "corpus_lines": ncorp,
        "input_distribution": {"operations": cp.ops_hist, "random_formulas": nform, "random_ops": nrand,
                               "malformed_ops": nmal, "longest_line": cp.maxsize},
        "known_finding_hits": {KEY_KNOWN: cp.known_hits},
        "cancel_rule_of_the_implementation": ("any number of literals (as in /repo HEAD; full equivalences refuted, "
                                              "partial theorems apply)" if cp.variant() == 0 else
                                              "single literal (the ..._single_rule theorems are the property)"),
        "other_failures": cp.reported,
        "samples": cp.samples, "seconds": round(time.time() - t0, 1)})
    rep.add_cov(evaluations=cp.evals, traces_validated_against_impl=cp.evals)


def run_part(rep, tier):
    state = {}

    def searcher(log):
        # a proof no longer checks: look for a concrete input on which the property statement fails
        try:
            campaign(rep, tier, state)
        except C.BuildError as e:
            rep.notes.append("dnf searcher could not build: %s" % str(e)[:200])

    prev_axioms = dict(rep.cov.get("axioms") or {})      # proof_stage replaces these keys: keep the other parts'
    ok = C.proof_stage(rep, PID, TARGETS, PROPS, searcher)
    merged = dict(prev_axioms)
    merged.update(rep.cov.get("axioms") or {})
    rep.cov["axioms"] = merged
    rep.add_cov(**{PART + "_proof": {"ok": bool(ok), "properties_file": "coq/" + PROPS,
                                     "checker_cmd": "make -C coq %s && coqc -Q . AV %s" % (" ".join(TARGETS), PROPS)}})
    campaign(rep, tier, state)
    rep.assume(
        "dnf: extraction of coq/Dnf/Model.v with ExtrOcamlBasic only (Z, nat, list stay inductive types); "
        "coq/Dnf/driver.ml only parses/prints",
        "dnf: harness/dnf/h.c #includes the current dnf.c and builds argument values with its own "
        "dnfAndNew/dnfOrNew; linked with the current libgen/libport sources",
        "dnf: truth-table oracle in props/c20_dnf.py (python integers as bit sets over all valuations of the atoms used)",
        "dnf: atoms are non-zero ints of small magnitude; -INT_MIN, storage reuse and the text printers are not modelled",
        "dnf: the theorems about the code as it is are the partial ones (weakening, exactness without multi-literal "
        "cancellation); the full equivalences are proved for the single-literal rule and REFUTED for the current rule "
        "(known finding %s)" % KEY_KNOWN)


def replay_part(obj):
    """re-run the lines of a replay file; 1 if the failure is still there"""
    rep = C.Report(PID, "quick", "proof")
    cp = Campaign(rep, "quick")
    cp.raw_batch(obj.get("lines", []), "replay")
    return 1 if (rep.violations or rep.known) else 0
